"""Generators and runners shared by C15 (merge semantics) and C16 (atomic publication)."""
import csv
import os

from .. import core

EV_COLS = ["Sequence", "Modified sequence", "Raw file", "MS/MS scan number", "Score", "PEP", "Type", "Reverse",
           "Potential contaminant", "Proteins", "Comment"]
SEQS = ["AAAMK", "CCCDK", "LLLMR", "GGGCR", "MMMK", "EEEEK"]
# raw file names with underscore-delimited NUMERIC tokens inside the scan-number range (run_7 scan 7 -> PSM id run_7_7_2_1)
RAWS = ["run_01", "run_02_b", "plain", "a_b_c_d", "run_7", "HeLa_12_rep", "3_3"]


def mq_mod(rng, seq):
    s = "".join(c + ("(ox)" if c == "M" and rng.random() < 0.5 else "") for c in seq)
    if rng.random() < 0.2:
        s = "(ac)" + s
    return s


def to_perc(mod):
    return mod.replace("(ac)", "[42]").replace("M(ox)", "M[16]")


def gen_case(rng, n_ev_files=None):
    n_ev = n_ev_files or rng.choice([1, 1, 2, 3])
    psms = []           # the universe of (raw, scan, mod) that were searched
    ev_files = []
    for f in range(n_ev):
        rows = []
        for i in range(rng.randint(0, 8)):
            raw = rng.choice(RAWS)
            seq = rng.choice(SEQS)
            mod = mq_mod(rng, seq)
            mbr = rng.random() < 0.15
            scan = "" if mbr else str(rng.choice([rng.randint(1, 30), 7, 12, 3, 2]))
            rows.append([seq, "_" + mod + "_", raw, scan, rng.choice(["100.5", "7", "NaN", "55.25"]),
                         rng.choice(["0.01", "1e-05", "NaN", "0.5"]), rng.choice(["MULTI-MSMS", "MSMS", "MULTI-MATCH"]),
                         rng.choice(["", "", "+"]), rng.choice(["", "", "+"]), "P1;P2",
                         rng.choice(["x", "has\ttab", 'has "quote"', "", "a;b"])])
            if not mbr:
                psms.append((raw, scan, mod))
        f_ = {"header_case": rng.choice(["as_is", "lower", "upper"]), "rows": rows}
        if rng.random() < 0.2:
            f_["msms_layout"] = True        # an msms.txt-style file: the scan column is called "Scan number"
        if rng.random() < 0.25:
            # a SILAC search: the free column is MaxQuant's "Labeling state" (empty, 0, 1, and 2 for the third channel of a triple
            # label; -1 / -2 / -3 are MaxQuant's "unknown" codes) - for Andromeda-style identifiers it plays no part in the matching
            f_["labeling"] = True
            for row in rows:
                row[-1] = rng.choice(["", "0", "1", "2", "-1", "1", "2"])
        if rng.random() < 0.3:
            # another column layout (a different MaxQuant version): the tool warns and goes on; score and PEP are located per file
            perm = list(range(len(EV_COLS)))
            rng.shuffle(perm)
            f_["perm"] = perm
        ev_files.append(f_)
    pouts = []
    for k in range(rng.choice([0, 1, 2, 2])):
        rows = []
        for (raw, scan, mod) in psms:
            if rng.random() < 0.6 and raw != "plain":
                rows.append([f"{raw}_{scan}_{rng.choice([2, 3])}_1", rng.choice(["1.5", "0.25", "-2", "3.50", "1e1"]), "0.01",
                             rng.choice(["0.001", "1e-05", "0.5", "0.0100"]), "-." + to_perc(mod) + ".-", "P1", "P2"][:rng.choice([6, 7])])
        if rows and rng.random() < 0.3:
            rows.append(list(rows[0][:1]) + ["9.75", "0.01", "0.75"] + rows[0][4:])     # duplicate PSM id: later row wins
        rng.shuffle(rows)
        # Percolator >= 3.06 writes a "filename" column (the name of the pin file) next to the PSM id: for Andromeda input it is not
        # the raw file - that one is the prefix of the PSM id
        # (a result file named *.csv is comma-separated: the delimiter follows the file name)
        pouts.append({"rows": rows, "filename_col": rng.choice([None, None, "andromeda.tab", ""]), "csv": rng.random() < 0.25})
    return {"ev_files": ev_files, "pouts": pouts}


def _case(h, mode):
    return h if mode == "as_is" else h.lower() if mode == "lower" else h.upper()


def write_inputs(case, d):
    os.makedirs(d, exist_ok=True)
    evs, pouts = [], []
    for i, f in enumerate(case["ev_files"]):
        # file names in DESCENDING lexicographic order along the command line (run_C, run_B, ...): the order given is what counts
        p = os.path.join(d, f"evidence_run_{chr(ord('Z') - i)}.txt")
        with open(p, "w", newline="") as fh:
            w = csv.writer(fh, delimiter="\t")
            perm = f.get("perm") or list(range(len(EV_COLS)))
            names = ["Scan number" if (c == "MS/MS scan number" and f.get("msms_layout")) else c for c in EV_COLS]
            if f.get("labeling"):
                names[-1] = "Labeling state"
            w.writerow([_case(names[k], f["header_case"]) for k in perm])
            for r in f["rows"]:
                w.writerow([r[k] for k in perm])
        evs.append(p)
    for i, f in enumerate(case["pouts"]):
        p = os.path.join(d, f"pout_{chr(ord('Z') - i)}" + (".csv" if f.get("csv") else ".tab"))
        with open(p, "w", newline="") as fh:
            w = csv.writer(fh, delimiter="," if f.get("csv") else "\t")
            fc = f.get("filename_col")
            w.writerow(["PSMId"] + (["filename"] if fc is not None else []) + ["score", "q-value", "posterior_error_prob", "peptide", "proteinIds"])
            for r in f["rows"]:
                w.writerow(r[:1] + ([fc] if fc is not None else []) + r[1:])
        pouts.append(p)
    return evs, pouts


def read_cells(path):
    with open(path, newline="", encoding="utf-8-sig") as fh:
        return list(csv.reader(fh, delimiter="\t"))
