"""Grouping suites (C03): group_proteins of the three grouping modes vs Model/Grouping.v."""
import itertools

from .. import core, gens
from ..core import Suite, cstr, clist, cpair, cnat

MODES = {"subset": 0, "no": 1, "pseudo_gene": 2}
PROTS = ["A", "B", "C", "D"]
PEPS = ["e1", "e2", "e3", "e4"]


def render_pmap(m):
    return clist(cpair(cstr(e), clist(cstr(p) for p in ps)) for e, ps in m)


def group(mode, m):
    from picked_group_fdr import grouping
    strat = grouping.ProteinGroupingStrategyFactory(mode)
    # every occurrence of an identifier is its own string object, as after cell.split(";") on a file row (equal, not identical)
    pil = {e: (0.001, [(p + " ")[:-1] for p in ps]) for e, ps in m}
    pg = strat.group_proteins(pil, "")
    return [list(g) for g in pg.protein_groups]


def pepsets(m):
    d = {}
    for e, ps in m:
        for p in ps:
            d.setdefault(p, set()).add(e)
    return d


def property_violation(mode, m, groups):
    """C03 evaluated on the implementation's output."""
    if len(groups) == 1 and len(groups[0]) == 1 and groups[0][0].startswith("<raised "):
        return "grouping-" + groups[0][0].strip("<>").replace(" ", "-")
    ps = pepsets(m)
    flat = [p for g in groups for p in g]
    if sorted(flat) != sorted(ps) or any(not g for g in groups):
        return "not-a-partition-of-the-observed-proteins"
    if mode == "no":
        return None if all(len(g) == 1 for g in groups) else "no-grouping-not-singletons"
    if mode == "subset":
        for g in groups:
            lead = ps[g[0]]
            if any(not ps[x] <= lead for x in g):
                return "leader-does-not-contain-member"
            for q in ps:
                if q not in g and lead <= ps[q]:
                    return "leader-not-maximal"
        maximal = {frozenset(s) for s in ps.values() if not any(s < t for t in ps.values())}
        if len(groups) != len(maximal):
            return "group-count-differs-from-maximal-sets"
        return None
    # pseudo-gene: groups == connected components of "shares a peptide"
    parent = {p: p for p in ps}

    def find(x):
        while parent[x] != x:
            parent[x] = parent[parent[x]]
            x = parent[x]
        return x
    for e, prots in m:
        for p in prots[1:]:
            parent[find(p)] = find(prots[0])
    comps = {}
    for p in ps:
        comps.setdefault(find(p), set()).add(p)
    if sorted(map(sorted, comps.values())) != sorted(sorted(g) for g in groups):
        return "pseudo-gene-groups-are-not-the-connected-components"
    return None


class GroupingSuite(Suite):
    has_py_property = True

    def py_property(self, case, out):
        return property_violation(case["mode"], case["map"], out)

    name = "group_proteins"
    imports = "From PGF Require Import Base.Prelude Model.ProteinGroups Model.Grouping Harness.H03."
    case_type = "(nat * pmap) * list (list str)"
    chk = "chk03"
    runf = "run03"
    deterministic = False
    rule = ("incidence structures over 4 proteins x <= 4 peptides (every structure in the thorough tier, a seeded sample "
            "in the quick tier, protein lists in shuffled order) and random structures up to 14 proteins x 24 peptides "
            "with planted equal sets, nested chains and repeated identifiers per peptide; three grouping modes; "
            "non-trivial = at least one merge and one pair of equal or nested peptide sets")

    def gen(self, rng, tier):
        subsets = [list(c) for r in range(1, 5) for c in itertools.combinations(PROTS, r)]
        allstruct = itertools.product(range(len(subsets) + 1), repeat=4)   # 0 = peptide absent
        if tier == "thorough":
            chosen = allstruct
        else:
            chosen = (tuple(rng.randint(0, len(subsets)) for _ in range(4)) for _ in range(1500))
        for st in chosen:
            m = []
            for e, k in zip(PEPS, st):
                if k:
                    ps = list(subsets[k - 1])
                    if tier != "thorough" or rng.random() < 0.5:
                        rng.shuffle(ps)
                    m.append([e, ps])
            if not m:
                continue
            for mode in (["subset"] if tier == "thorough" and rng.random() < 0.7 else MODES):
                yield {"mode": mode, "map": m}
        for _ in range(core.tier_n(tier, 600, 20000)):
            npr = rng.randint(2, 14)
            prots = [f"P{i}" for i in range(npr)]
            if rng.random() < 0.5:
                # identifiers are opaque to the grouping: decoy / contaminant markers (also on proteins that share peptides with
                # unmarked ones), one name a prefix of another, names differing in case only, isoform suffixes, UniProt triples
                shapes = [lambda i: f"REV__P{i}", lambda i: f"rev_P{i}", lambda i: f"P1{i}", lambda i: f"p{i}", lambda i: f"P{i}-2",
                          lambda i: f"sp|Q{i}|X{i}_HUMAN", lambda i: f"CON__P{i}", lambda i: f"P{i}", lambda i: f"P{i}", lambda i: f"P{i}_REV__"]
                prots = [rng.choice(shapes)(i) for i in range(npr)]
                if len(set(prots)) < npr:
                    prots = [f"P{i}" for i in range(npr)]
            m = []
            npe = rng.randint(1, 24)
            style = rng.random()
            for j in range(npe):
                if style < 0.3:      # nested chains: peptide j goes to the first k proteins
                    k = rng.randint(1, npr)
                    ps = prots[:k]
                elif style < 0.5:    # planted equal sets
                    base = rng.sample(prots, rng.randint(1, min(4, npr)))
                    ps = base + ([prots[0]] if rng.random() < 0.5 and prots[0] not in base else [])
                else:
                    ps = rng.sample(prots, rng.randint(1, min(5, npr)))
                ps = list(ps)
                rng.shuffle(ps)
                if rng.random() < 0.1:
                    ps.append(ps[0])           # repeated identifier (gene-level shape)
                m.append([f"pep{j}", ps])
            if rng.random() < 0.15:
                # proteins present in two (or three) of the digest maps that were merged: EVERY peptide of theirs lists them that often
                doubled = {p: rng.choice([2, 2, 3]) for p in rng.sample(prots, rng.randint(1, max(1, npr // 3)))}
                m = [[e, [q for p in ps for q in [p] * doubled.get(p, 1)]] for e, ps in m]
            yield {"mode": rng.choice(list(MODES)), "map": m}

    def impl(self, case):
        try:
            return group(case["mode"], case["map"])
        except Exception as e:      # the grouping of a well-formed incidence structure never raises
            return [["<raised " + gens.exn_name(e) + ">"]]

    def render_in(self, case):
        return cpair(cnat(MODES[case["mode"]]), render_pmap(case["map"]))

    def render(self, case, out):
        return cpair(self.render_in(case), clist(clist(cstr(p) for p in g) for g in out))

    def nontrivial(self, case, out):
        ps = pepsets(case["map"])
        merged = any(len(g) > 1 for g in out)
        nested = any(a != b and ps[a] <= ps[b] for a in ps for b in ps)
        return merged and nested

    def describe(self, case, out):
        return {"mode": case["mode"], "proteins": min(len(pepsets(case["map"])), 15), "groups": min(len(out), 10)}

    def signature(self, case, out):
        return property_violation(case["mode"], case["map"], out) or "grouping-model-mismatch"

    def shrink(self, case):
        m = case["map"]
        for i in range(len(m)):
            if len(m) > 1:
                yield {"mode": case["mode"], "map": m[:i] + m[i + 1:]}
        for i, (e, ps) in enumerate(m):
            for j in range(len(ps)):
                if len(ps) > 1:
                    yield {"mode": case["mode"], "map": m[:i] + [[e, ps[:j] + ps[j + 1:]]] + m[i + 1:]}
