"""C07 — reproducibility: call histories on a re-used MethodConfig and CLI runs under several hash seeds,
all against the single answer of Model/Pipeline.v."""
import json
import os
import subprocess
import sys
import tempfile

from .. import core, gens
from .pipeline_common import PipelineSuite, gen_pil, family_pil, run_pipeline, shipped_methods, pipeline_property_violation

SUITES = [PipelineSuite()]


def suite_by_name(name):
    return next(s for s in SUITES if s.name == name)


HISTORY_METHODS = ["picked_protein_group_mq_input", "maxquant_mq_best_picked", "savitski_mq_mult",
                   "classic_protein_group", "razor_picked_mq_input", "savitski"]


def histories(r, n_hist):
    """One MethodConfig object re-used along a random call sequence (different inputs interleaved, same input
    repeated); every call must give exactly what a fresh configuration gives for that input and seed."""
    from picked_group_fdr import methods
    rng = r.rng
    n_calls = 0
    for h in range(n_hist):
        m = rng.choice(HISTORY_METHODS)
        mc = methods.parse_method_toml(m, False)
        inputs = [family_pil(rng) if rng.random() < 0.3 else gen_pil(rng) for _ in range(3)]
        if rng.random() < 0.35:
            # one of the inputs has no target peptide at all (a decoy-only search, an entrapment half): every quantity that is
            # "computed from the target PEPs" takes its empty-list value - in a fresh process and on a re-used object alike
            j = rng.randrange(3)
            inputs[j] = [[e, sc, [p if p.startswith("REV__") else "REV__" + p for p in ps]] for e, sc, ps in inputs[j]]
        from fractions import Fraction
        # the caller's own dictionaries: the same OBJECT is handed to every call on that input (a fresh process parses a fresh one)
        objs = [{e: (float(Fraction(sc)), list(ps)) for e, sc, ps in pil} for pil in inputs]
        seq = [rng.randrange(3) for _ in range(rng.randint(3, 6))]
        trace = []
        # in two histories out of three one call (not the last one) is ABORTED: an interruption (KeyboardInterrupt, as from Ctrl-C or a
        # signal-based time limit) arrives while the target-decoy competition is walking over the groups, and the caller carries on
        abort_at = rng.randrange(len(seq) - 1) if h % 3 != 2 else None
        for pos, k in enumerate(seq):
            seed = 1
            ka = bool(k % 2)
            if pos == abort_at:
                aborted = abort_call(mc, inputs[k], ka, seed, objs[k], rng.randint(1, 6))
                trace.append({"input": k, "aborted": aborted})
                continue
            if pos and rng.random() < 0.25 and hasattr(mc.picked_strategy, "seen_proteins"):
                # the state an aborted call may leave, put there directly: some proteins of this input (and their decoy/target twins,
                # which clean to the same name) sit in the seen set when the call starts
                names = sorted({p for _, _, ps in inputs[k] for p in ps})
                left = set(rng.sample(names, rng.randint(1, len(names))))
                mc.picked_strategy.seen_proteins = {p.replace("REV__", "") for p in left} | {";".join(sorted(left))}
                trace.append({"seen_set_left_behind": sorted(mc.picked_strategy.seen_proteins)})
            reused = run_pipeline(mc, inputs[k], ka, gens.fr(0.01), gens.fr(0.01), seed, d=objs[k])
            fresh = run_pipeline(methods.parse_method_toml(m, False), inputs[k], ka, gens.fr(0.01), gens.fr(0.01), seed)
            n_calls += 1
            a = reused.get("ok", reused.get("raise"))
            b = fresh.get("ok", fresh.get("raise"))
            trace.append({"input": k, "equal": a == b})
            if a != b:
                r.violation("property-failure",
                            {"suite": "call_history", "method": m, "inputs": inputs, "sequence": seq, "abort_at": abort_at, "trace": trace,
                             "reused_result": a, "fresh_result": b},
                            found_input=True,
                            what=f"call #{len(trace)} on a re-used {m} configuration differs from a fresh configuration")
                return n_calls
    return n_calls


def abort_call(mc, pil, ka, seed, d, nth):
    """a call that is interrupted when the competition loop looks at its [nth] group (helpers.is_contaminant is what the loop
    calls once per candidate group); True when the interruption happened"""
    from picked_group_fdr import helpers
    real = helpers.is_contaminant
    seen = []

    def interrupting(protein_group):
        seen.append(1)
        if len(seen) == nth:
            raise KeyboardInterrupt
        return real(protein_group)
    helpers.is_contaminant = interrupting
    try:
        run_pipeline(mc, pil, ka, gens.fr(0.01), gens.fr(0.01), seed, d=d)
        return False
    except KeyboardInterrupt:
        return True
    finally:
        helpers.is_contaminant = real


CLI_SCRIPT = r'''
import sys, json, logging
logging.disable(logging.CRITICAL)
from picked_group_fdr import picked_group_fdr as pgf
pgf.main(sys.argv[1:])
'''


def write_inputs(d, pil, rng):
    """a MaxQuant evidence file + FASTA realising the peptide list"""
    prots = sorted({p for _, _, ps in pil for p in ps if not p.startswith("REV__")} |
                   {p[5:] for _, _, ps in pil for p in ps if p.startswith("REV__")})
    ev = os.path.join(d, "evidence.txt")
    cols = ["Sequence", "Modified sequence", "Leading proteins", "Leading razor protein", "PEP", "Score", "Experiment",
            "Charge", "Intensity", "Raw file", "Fraction", "id"]
    with open(ev, "w") as f:
        f.write("\t".join(cols) + "\n")
        for i, (e, sc, ps) in enumerate(pil):
            from fractions import Fraction
            f.write("\t".join([e, "_" + e + "_", ";".join(ps), ps[0], repr(float(Fraction(sc))), "100", "E1", "2", "1000",
                               "raw1", "1", str(i)]) + "\n")
    return ev


def cli_hash_seeds(r, n_inputs, seeds):
    """the CLI on generated files under several PYTHONHASHSEED values: output bytes must be identical"""
    n_runs = 0
    env_base = dict(os.environ)
    for k in range(n_inputs):
        if k % 2 == 0 or k % 3 == 1:
            # (the two-FASTA runs need peptides the tryptic digest of the concatenated sequences gives back: no P / K / R inside)
            pil = family_pil(r.rng)
        else:
            pil = gen_pil(r.rng, max_prot=7, max_pep=12)
            # make sure a ranking exists: two proteins get a peptide of their own
            pil.append(["UNIQUEAK", gens.fr(0.002), [pil[0][2][0]]])
            pil.append(["UNIQUEBK", gens.fr(0.03), [pil[-2][2][-1]]])
        d = tempfile.mkdtemp(prefix="c07_", dir=core.scratch())
        if k % 3 == 2:
            # several methods in one command line (they share one random stream, so the order in which they run is part of the result):
            # Percolator input, the three methods that take the proteins from the file
            from .. import filegen
            from fractions import Fraction
            method = "classic_no_grouping_no_remap,picked_protein_group_no_remap,savitski_no_remap"
            ev = os.path.join(d, "perc.tab")
            filegen.write_percolator(ev, [{"peptide": e, "proteins": list(ps), "pep": float(Fraction(sc))} for e, sc, ps in pil])
            flag = "--perc_evidence"
        elif k % 3 == 1:
            # a remapping method with TWO FASTA files (the digest maps of the files are merged peptide by peptide): every target protein
            # is the concatenation of its tryptic peptides; the first member of every isoform family is in the first file, the rest in
            # the second one, so peptides of the first file gain several proteins from the second
            method = "picked_protein_group_mq_input"
            ev = write_inputs(d, pil, r.rng)
            flag = "--mq_evidence"
            seqs = {}
            for e, _, ps in pil:
                for p_ in ps:
                    if not p_.startswith("REV__"):
                        seqs.setdefault(p_, []).append(e)
            names = sorted(seqs)
            first = {n for n in names if n.endswith("I0") or n.endswith("0")}
            fa = [os.path.join(d, "canonical.fasta"), os.path.join(d, "isoforms.fasta")]
            for path, sel in zip(fa, ([n for n in names if n in first], [n for n in names if n not in first])):
                with open(path, "w") as fh:
                    for n in sel:
                        fh.write(f">{n}\n{''.join(seqs[n])}\n")
            extra = ["--fasta"] + fa + ["--min-length", "4"]
        else:
            method = "picked_protein_group_mq_input_no_remap"
            ev = write_inputs(d, pil, r.rng)
            flag = "--mq_evidence"
        outs = {}
        procs = []
        for hs in seeds:
            sub = os.path.join(d, f"hs{hs}")
            os.makedirs(sub)
            out = os.path.join(sub, "pg.txt")
            env = dict(env_base, PYTHONHASHSEED=str(hs))
            p = subprocess.Popen([sys.executable, "-W", "ignore", "-c", CLI_SCRIPT, flag, ev, "--methods", method,
                                  "--protein_groups_out", out] + (extra if k % 3 == 1 else []), env=env, cwd=sub,
                                 stdout=subprocess.DEVNULL, stderr=subprocess.PIPE)
            procs.append((hs, sub, p))
        for hs, sub, p in procs:
            _, err = p.communicate(timeout=300)
            n_runs += 1
            written = sorted(os.listdir(sub))
            outs[hs] = b"".join(f.encode() + b"\n" + open(os.path.join(sub, f), "rb").read() for f in written) if written \
                else ("<no output> " + err.decode()[-300:]).encode()
        if all(v.startswith(b"<no output>") and (b"not enough values to unpack" in v or b"too many indices" in v) for v in outs.values()):
            continue        # no group has evidence on this input (outside every property's domain): the same refusal under every seed
        if len(set(outs.values())) != 1:
            r.violation("property-failure",
                        {"suite": "cli_hash_seeds", "pil": pil, "method": method,
                         "outputs": {str(h): v.decode(errors="replace")[:1500] for h, v in outs.items()}},
                        found_input=True, what="CLI output bytes differ between PYTHONHASHSEED values")
            break
        if any(v.startswith(b"<no output>") for v in outs.values()):
            r.violation("harness-error", {"suite": "cli_hash_seeds", "stderr": list(outs.values())[0].decode()},
                        found_input=False, what="CLI run produced no output")
            break
    return n_runs


PROBE_SCRIPT = r'''
import sys, json, logging
logging.disable(logging.CRITICAL)
from harness.props.pipeline_common import run_pipeline
from picked_group_fdr import methods
c = json.loads(sys.argv[1])
out = run_pipeline(methods.parse_method_toml(c["method"], False), c["pil"], c["keep_all"], c["thr"], c["psm_cut"], c["seed"])
print(json.dumps(out.get("ok", out.get("raise"))))
'''


def hash_seed_probe(case, seeds=tuple(range(32))):
    """the inference function on one input in fresh processes under several PYTHONHASHSEED values: the distinct results"""
    import json
    procs = []
    for hs in seeds:
        env = dict(os.environ, PYTHONHASHSEED=str(hs))
        procs.append((hs, subprocess.Popen([sys.executable, "-W", "ignore", "-c", PROBE_SCRIPT, json.dumps(case)], env=env,
                                           stdout=subprocess.PIPE, stderr=subprocess.DEVNULL, text=True)))
    res = {}
    for hs, p in procs:
        out, _ = p.communicate(timeout=300)
        res.setdefault(out.strip().splitlines()[-1] if out.strip() else "<no output>", []).append(hs)
    return res


def run(r: core.Runner):
    r.assumptions += [
        "PARTIAL: numpy's MT19937 stream for a fixed seed, networkx's iteration inside minimum_st_node_cut and the interpreter "
        "are outside the model; their determinism is observed by the hash-seed runs, not proved",
        "protein scores, PEP cutoffs, shuffles and splitter answers are recorded oracles of the model (their own models: C05, C17, "
        "C02/C14, C04)",
    ]
    s = SUITES[0]
    orig = r.violation

    def violation(kind, data, found_input, what):
        if data.get("suite") == s.name and "case" in data:
            v = pipeline_property_violation(data["case"], s.impl(data["case"]))
            if v:
                kind, found_input, what = "property-failure", True, f"{s.name}: {v}"
            else:
                # a disagreement with the (hash-seed free) model: is the result of this input reproducible across hash seeds?
                res = hash_seed_probe(data["case"])
                if len(res) > 1:
                    data = dict(data, results_by_hash_seed={k[:400]: v for k, v in res.items()})
                    kind, found_input, what = "property-failure", True, \
                        f"{s.name}: the result of this input differs between PYTHONHASHSEED values {sorted(res.values())}"
        orig(kind, data, found_input, what)
    r.violation = violation
    s.methods = None
    r.run_suite(s)
    nh = histories(r, core.tier_n(r.tier, 25, 600))
    nc = cli_hash_seeds(r, core.tier_n(r.tier, 6, 60), [0, 1, 2, 3] if r.tier != "thorough" else [0, 1, 2, 3, 4, 5, 6, 7])
    r.traces = nh + nc
    r.extra["history_calls_compared_with_fresh"] = nh
    r.extra["cli_runs_under_hash_seeds"] = nc
