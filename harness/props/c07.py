"""C07 — reproducibility: call histories on a re-used MethodConfig and CLI runs under several hash seeds,
all against the single answer of Model/Pipeline.v."""
import json
import os
import subprocess
import sys
import tempfile

from .. import core, gens
from .pipeline_common import PipelineSuite, gen_pil, run_pipeline, shipped_methods, pipeline_property_violation

SUITES = [PipelineSuite()]


def suite_by_name(name):
    return next(s for s in SUITES if s.name == name)


HISTORY_METHODS = ["picked_protein_group_mq_input", "maxquant_mq_best_picked", "savitski_mq_mult",
                   "classic_protein_group", "razor_picked_mq_input", "savitski"]


def histories(r, n_hist):
    """One MethodConfig object re-used along a random call sequence (different inputs interleaved, same input
    repeated); every call must give exactly what a fresh configuration gives for that input and seed."""
    from picked_group_fdr import methods
    rng = r.rng
    n_calls = 0
    for h in range(n_hist):
        m = rng.choice(HISTORY_METHODS)
        mc = methods.parse_method_toml(m, False)
        inputs = [gen_pil(rng) for _ in range(3)]
        seq = [rng.randrange(3) for _ in range(rng.randint(3, 6))]
        trace = []
        for k in seq:
            seed = 1
            ka = bool(k % 2)
            reused = run_pipeline(mc, inputs[k], ka, gens.fr(0.01), gens.fr(0.01), seed)
            fresh = run_pipeline(methods.parse_method_toml(m, False), inputs[k], ka, gens.fr(0.01), gens.fr(0.01), seed)
            n_calls += 1
            a = reused.get("ok", reused.get("raise"))
            b = fresh.get("ok", fresh.get("raise"))
            trace.append({"input": k, "equal": a == b})
            if a != b:
                r.violation("property-failure",
                            {"suite": "call_history", "method": m, "inputs": inputs, "sequence": seq, "trace": trace,
                             "reused_result": a, "fresh_result": b},
                            found_input=True,
                            what=f"call #{len(trace)} on a re-used {m} configuration differs from a fresh configuration")
                return n_calls
    return n_calls


CLI_SCRIPT = r'''
import sys, json, logging
logging.disable(logging.CRITICAL)
from picked_group_fdr import picked_group_fdr as pgf
pgf.main(sys.argv[1:])
'''


def write_inputs(d, pil, rng):
    """a MaxQuant evidence file + FASTA realising the peptide list"""
    prots = sorted({p for _, _, ps in pil for p in ps if not p.startswith("REV__")} |
                   {p[5:] for _, _, ps in pil for p in ps if p.startswith("REV__")})
    ev = os.path.join(d, "evidence.txt")
    cols = ["Sequence", "Modified sequence", "Leading proteins", "Leading razor protein", "PEP", "Score", "Experiment",
            "Charge", "Intensity", "Raw file", "Fraction", "id"]
    with open(ev, "w") as f:
        f.write("\t".join(cols) + "\n")
        for i, (e, sc, ps) in enumerate(pil):
            from fractions import Fraction
            f.write("\t".join([e, "_" + e + "_", ";".join(ps), ps[0], repr(float(Fraction(sc))), "100", "E1", "2", "1000",
                               "raw1", "1", str(i)]) + "\n")
    return ev


def family_pil(rng):
    """several families of isoforms that share peptides pairwise and have none of their own (rescue step: many small connected
    components of unidentified groups, where set iteration order could leak into the result), plus unique targets and decoys"""
    aas = "ACDEFGHILMNQSTVWY"
    pil = []
    nfam = rng.randint(3, 6)
    for f in range(rng.randint(1, 3)):
        # indistinguishable isoforms: three or four proteins with exactly the same two or three peptides (all of them are superset
        # candidates of each other, tied on the peptide count: their order in the group must not depend on set iteration)
        twins = [f"T{f}I{i}" for i in range(rng.choice([3, 3, 4]))]
        for _ in range(rng.randint(2, 3)):
            ps = list(twins)
            rng.shuffle(ps)
            pil.append(["".join(rng.choice(aas) for _ in range(7)) + "TK", gens.fr(rng.choice([0.001, 0.004])), ps])
    for f in range(nfam):
        iso = [f"F{f}I{i}" for i in range(rng.choice([2, 3, 3, 4]))]
        rng.shuffle(iso)
        pairs = [(a, b) for i, a in enumerate(iso) for b in iso[i + 1:]]
        for j, (a, b) in enumerate(pairs):
            ps = [a, b] if rng.random() < 0.5 else [b, a]
            pil.append(["".join(rng.choice(aas) for _ in range(7)) + "K", gens.fr(rng.choice([0.001, 0.004, 0.02])), ps])
        if len(iso) >= 3 and rng.random() < 0.5:
            # indistinguishable isoforms: the same two or three peptides for all of them (ties on the peptide count among the
            # superset candidates; their order must not depend on set iteration)
            for _ in range(rng.randint(2, 3)):
                ps = list(iso)
                rng.shuffle(ps)
                pil.append(["".join(rng.choice(aas) for _ in range(7)) + "R", gens.fr(rng.choice([0.001, 0.004])), ps])
        if len(iso) >= 3 and rng.random() < 0.5:
            pil.append(["".join(rng.choice(aas) for _ in range(7)) + "R", gens.fr(0.003), list(iso[:3])])
    for u in range(rng.randint(2, 5)):
        pil.append(["".join(rng.choice(aas) for _ in range(6)) + "UK", gens.fr(rng.choice([0.0005, 0.002, 0.03])), [f"U{u}"]])
    for u in range(rng.randint(1, 3)):
        pil.append(["".join(rng.choice(aas) for _ in range(6)) + "DK", gens.fr(rng.choice([0.01, 0.2])), [f"REV__U{u}"]])
    rng.shuffle(pil)
    return pil


def cli_hash_seeds(r, n_inputs, seeds):
    """the CLI on generated files under several PYTHONHASHSEED values: output bytes must be identical"""
    n_runs = 0
    env_base = dict(os.environ)
    for k in range(n_inputs):
        if k % 2 == 0:
            pil = family_pil(r.rng)
        else:
            pil = gen_pil(r.rng, max_prot=7, max_pep=12)
            # make sure a ranking exists: two proteins get a peptide of their own
            pil.append(["UNIQUEAK", gens.fr(0.002), [pil[0][2][0]]])
            pil.append(["UNIQUEBK", gens.fr(0.03), [pil[-2][2][-1]]])
        d = tempfile.mkdtemp(prefix="c07_", dir=core.scratch())
        if k % 3 == 2:
            # several methods in one command line (they share one random stream, so the order in which they run is part of the result):
            # Percolator input, the three methods that take the proteins from the file
            from .. import filegen
            from fractions import Fraction
            method = "classic_no_grouping_no_remap,picked_protein_group_no_remap,savitski_no_remap"
            ev = os.path.join(d, "perc.tab")
            filegen.write_percolator(ev, [{"peptide": e, "proteins": list(ps), "pep": float(Fraction(sc))} for e, sc, ps in pil])
            flag = "--perc_evidence"
        else:
            method = "picked_protein_group_mq_input_no_remap"
            ev = write_inputs(d, pil, r.rng)
            flag = "--mq_evidence"
        outs = {}
        procs = []
        for hs in seeds:
            sub = os.path.join(d, f"hs{hs}")
            os.makedirs(sub)
            out = os.path.join(sub, "pg.txt")
            env = dict(env_base, PYTHONHASHSEED=str(hs))
            p = subprocess.Popen([sys.executable, "-W", "ignore", "-c", CLI_SCRIPT, flag, ev, "--methods", method,
                                  "--protein_groups_out", out], env=env, cwd=sub, stdout=subprocess.DEVNULL, stderr=subprocess.PIPE)
            procs.append((hs, sub, p))
        for hs, sub, p in procs:
            _, err = p.communicate(timeout=300)
            n_runs += 1
            written = sorted(os.listdir(sub))
            outs[hs] = b"".join(f.encode() + b"\n" + open(os.path.join(sub, f), "rb").read() for f in written) if written \
                else ("<no output> " + err.decode()[-300:]).encode()
        if len(set(outs.values())) != 1:
            r.violation("property-failure",
                        {"suite": "cli_hash_seeds", "pil": pil, "method": method,
                         "outputs": {str(h): v.decode(errors="replace")[:1500] for h, v in outs.items()}},
                        found_input=True, what="CLI output bytes differ between PYTHONHASHSEED values")
            break
        if any(v.startswith(b"<no output>") for v in outs.values()):
            r.violation("harness-error", {"suite": "cli_hash_seeds", "stderr": list(outs.values())[0].decode()},
                        found_input=False, what="CLI run produced no output")
            break
    return n_runs


def run(r: core.Runner):
    r.assumptions += [
        "PARTIAL: numpy's MT19937 stream for a fixed seed, networkx's iteration inside minimum_st_node_cut and the interpreter "
        "are outside the model; their determinism is observed by the hash-seed runs, not proved",
        "protein scores, PEP cutoffs, shuffles and splitter answers are recorded oracles of the model (their own models: C05, C17, "
        "C02/C14, C04)",
    ]
    s = SUITES[0]
    orig = r.violation

    def violation(kind, data, found_input, what):
        if data.get("suite") == s.name and "case" in data:
            v = pipeline_property_violation(data["case"], s.impl(data["case"]))
            if v:
                kind, found_input, what = "property-failure", True, f"{s.name}: {v}"
        orig(kind, data, found_input, what)
    r.violation = violation
    s.methods = None
    r.run_suite(s)
    nh = histories(r, core.tier_n(r.tier, 25, 600))
    nc = cli_hash_seeds(r, core.tier_n(r.tier, 6, 60), [0, 1, 2, 3] if r.tier != "thorough" else [0, 1, 2, 3, 4, 5, 6, 7])
    r.traces = nh + nc
    r.extra["history_calls_compared_with_fresh"] = nh
    r.extra["cli_runs_under_hash_seeds"] = nc
