"""C20 — ProteinGroups operation/lookup histories vs Model/ProteinGroups.v, outcome by outcome."""
import itertools

from .. import core, gens
from ..core import Suite, cstr, clist, cpair, cZ, cnat, cok, craise

PROTS = ["A", "B", "C"]
UNKNOWN = "X"


def rg(g):
    return clist(cstr(p) for p in g)


def rgs(gs):
    return clist(rg(g) for g in gs)


def render_op(o):
    k = o[0]
    if k == "append":
        return f"(OAppend {rg(o[1])})"
    if k == "extend":
        return f"(OExtend {rgs(o[1])})"
    if k == "merge":
        return f"(OMerge {cstr(o[1])} {cstr(o[2])})"
    if k == "remove_empty":
        return "ORemoveEmpty"
    if k == "create_index":
        return "OCreateIndex"
    if k == "add_unseen":
        return f"(OAddUnseen {rgs(o[1])})"
    if k == "replace":
        return f"(OReplace {rgs(o[1])})"
    raise ValueError(k)


def render_lk(l):
    k = l[0]
    if k == "group":
        return f"(LGroup {cstr(l[1])})"
    tag = {"idxs": "LIdxs", "groups": "LGroups", "leading": "LLeading"}[k]
    return f"({tag} {rg(l[1])})"


def do_lookup(pg, l):
    k = l[0]
    try:
        if k == "group":
            return {"k": "OG", "ok": list(pg.get_protein_group(l[1]))}
        if k == "idxs":
            return {"k": "OI", "ok": sorted(int(i) for i in pg.get_protein_group_idxs(l[1]))}
        if k == "groups":
            return {"k": "OGs", "ok": sorted(list(g) for g in pg.get_protein_groups(l[1]))}
        if k == "leading":
            return {"k": "OL", "ok": sorted(pg.get_leading_proteins(l[1]))}
    except Exception as e:
        return {"k": {"group": "OG", "idxs": "OI", "groups": "OGs", "leading": "OL"}[k],
                "raise": gens.exn_name(e)}
    raise ValueError(k)


def render_outc(o):
    k = o["k"]
    if "raise" in o:
        return f"({k} {craise(o['raise'])})"
    v = o["ok"]
    if k == "OG" or k == "OL":
        return f"({k} {cok(rg(v))})"
    if k == "OI":
        return f"({k} {cok(clist(cZ(i) for i in v))})"
    return f"({k} {cok(rgs(v))})"


LOOKUPS = ([["group", p] for p in PROTS + [UNKNOWN]] +
           [["idxs", ["A", "B"]], ["idxs", [UNKNOWN]], ["idxs", ["C", UNKNOWN]],
            ["groups", ["A", "B", "C"]], ["groups", [UNKNOWN]], ["groups", ["B", UNKNOWN]],
            ["leading", ["A", "B"]], ["leading", ["C"]], ["leading", [UNKNOWN]],
            # proteins that only enter the collection later (absent from an index built before)
            ["idxs", ["D"]], ["idxs", ["D", UNKNOWN]], ["groups", ["D", "E"]], ["group", "D"], ["leading", ["D"]]])

OP_ALPHABET = [
    ["append", ["C"]], ["append", []], ["extend", [["B", "C"], ["A"]]], ["append", ["D", "E"]],
    ["merge", "A", "B"], ["merge", "B", "A"], ["merge", "A", "C"], ["merge", "C", "C"], ["merge", "A", UNKNOWN],
    ["remove_empty"], ["create_index"],
    ["add_unseen", [["A", "D"], ["B"], ["E"]]], ["add_unseen", [["A"], ["C", "B"]]],
]


class HistorySuite(Suite):
    has_py_property = True

    def py_property(self, case, out):
        return property_violation(case, out)[0] if property_violation(case, out) else None

    name = "protein_groups_history"
    imports = "From PGF Require Import Base.Prelude Model.ProteinGroups Harness.H20."
    case_type = ("(list (list str) * list op * list lk) * (list outc * list (res (list (list str) * list nat) "
                 "* list (list str) * list outc))")
    chk = "chk20"
    runf = "run20"
    deterministic = False     # a disagreement is turned into a failing input by the Python property monitor
    rule = ("exhaustive: every sequence of <= 3 (quick) / <= 4 (thorough) operations from a 12-operation alphabet "
            "over proteins A,B,C (+unknown X), 13 lookups after every operation; random: up to 12 operations (incl. an outside edit of the group list followed by a re-index) over 7 "
            "proteins (half of the runs: 11 identifiers that differ by padding, letter case, a prefix or a marker only); non-trivial = at least one merge or add_unseen succeeded and the index was valid at some lookup")

    def gen(self, rng, tier):
        init = [["A"], ["B"], ["C"]]
        maxlen = 4 if tier == "thorough" else 3
        for n in range(1, maxlen + 1):
            for seq in itertools.product(OP_ALPHABET, repeat=n):
                yield {"init": init, "ops": [list(o) for o in seq], "lookups": LOOKUPS}
        for _ in range(core.tier_n(tier, 300, 6000)):
            prots = ["A", "B", "C", "D", "E", "F", "REV__A"]
            if rng.random() < 0.5:
                # identifiers are addressed verbatim: twins that differ by padding, letter case, a prefix, a marker
                prots = ["A", "A ", " A", "a", "AB", "A\t", "sp|P1|A_HUMAN", "sp|P1|A_HUMAN ", "REV__A", "B", "b"]
            ng = rng.randint(0, 4)
            pool = prots[:]
            rng.shuffle(pool)
            init, k = [], 0
            for _ in range(ng):
                sz = rng.choice([0, 1, 1, 2, 3])
                init.append(pool[k:k + sz])
                k += sz
            ops = []
            for _ in range(rng.randint(1, 12)):
                r = rng.random()
                rp = lambda: rng.choice(prots + [UNKNOWN])
                if r < 0.15:
                    ops.append(["append", [rp() for _ in range(rng.choice([0, 1, 2]))]])
                elif r < 0.25:
                    ops.append(["extend", [[rp() for _ in range(rng.choice([0, 1, 2]))] for _ in range(rng.choice([0, 1, 2]))]])
                elif r < 0.55:
                    ops.append(["merge", rp(), rp()])
                elif r < 0.7:
                    ops.append(["remove_empty"])
                elif r < 0.82:
                    ops.append(["create_index"])
                elif r < 0.9:
                    # the group list is curated from outside (groups dropped, proteins taken out) and the object re-indexed
                    ops.append(["replace", [[rp() for _ in range(rng.choice([0, 1, 2]))] for _ in range(rng.choice([0, 1, 2, 3]))]])
                else:
                    ops.append(["add_unseen", [[rp() for _ in range(rng.choice([1, 2, 3]))] for _ in range(rng.choice([1, 2, 3]))]])
            lks = [["group", rp()] for _ in range(3)] + [[rng.choice(["idxs", "groups", "leading"]), [rp() for _ in range(rng.choice([1, 2, 3]))]] for _ in range(4)]
            c = {"init": init, "ops": ops, "lookups": lks}
            if rng.random() < 0.3:
                # a second, unrelated collection lives in the same process and is (re-)indexed between the operations: every object
                # answers from its own index
                c["bystander"] = [[rp() for _ in range(rng.choice([1, 2]))] for _ in range(rng.choice([1, 2, 3]))]
            yield c

    def impl(self, case):
        from picked_group_fdr.protein_groups import ProteinGroups
        pg = ProteinGroups.init_from_list([list(g) for g in case["init"]])
        out0 = [do_lookup(pg, l) for l in case["lookups"]]
        steps = []
        for o in case["ops"]:
            res = {"ok": [[], []]}
            try:
                k = o[0]
                if k == "append":
                    pg.append(list(o[1]))
                elif k == "extend":
                    pg.extend([list(g) for g in o[1]])
                elif k == "merge":
                    pg.merge_groups(o[1], o[2])
                elif k == "remove_empty":
                    pg.remove_empty_groups()
                elif k == "create_index":
                    pg.create_index()
                elif k == "replace":
                    pg.protein_groups = [list(g) for g in o[1]]
                    pg.create_index()
                elif k == "add_unseen":
                    other = ProteinGroups([list(g) for g in o[1]])
                    obs, obs_infos = pg.add_unseen_protein_groups(other, list(range(len(o[1]))))
                    res = {"ok": [[list(g) for g in obs], [int(i) for i in obs_infos]]}
            except Exception as e:
                res = {"raise": gens.exn_name(e)}
            if case.get("bystander"):
                by = ProteinGroups.init_from_list([list(g) for g in case["bystander"]])
                by.remove_empty_groups()
            steps.append({"res": res, "groups": [list(g) for g in pg.protein_groups],
                          "valid": bool(pg.valid_idx),
                          "lookups": [do_lookup(pg, l) for l in case["lookups"]]})
        return {"init_lookups": out0, "steps": steps}

    def render_in(self, case):
        return cpair(rgs(case["init"]), clist(render_op(o) for o in case["ops"]),
                     clist(render_lk(l) for l in case["lookups"]))

    def render(self, case, out):
        steps = []
        for st in out["steps"]:
            r = st["res"]
            ro = craise(r["raise"]) if "raise" in r else cok(cpair(rgs(r["ok"][0]), clist(cnat(i) for i in r["ok"][1])))
            steps.append(cpair(ro, rgs(st["groups"]), clist(render_outc(o) for o in st["lookups"])))
        return cpair(self.render_in(case),
                     cpair(clist(render_outc(o) for o in out["init_lookups"]), clist(steps)))

    def nontrivial(self, case, out):
        did = any(o[0] in ("merge", "add_unseen") and "ok" in st["res"] for o, st in zip(case["ops"], out["steps"]))
        return did and any(st["valid"] for st in out["steps"])

    def describe(self, case, out):
        kinds = {}
        for st in out["steps"]:
            for lo in st["lookups"]:
                kinds[lo.get("raise", "ok")] = kinds.get(lo.get("raise", "ok"), 0) + 1
        return {"n_ops": len(case["ops"]), "dominant_lookup_outcome": max(kinds, key=kinds.get) if kinds else "none"}

    def signature(self, case, out):
        v = property_violation(case, out)
        return v[0] if v else "history-model-mismatch"

    def shrink(self, case):
        ops = case["ops"]
        for i in range(len(ops)):
            yield dict(case, ops=ops[:i] + ops[i + 1:])
        for i in range(len(case["lookups"])):
            yield dict(case, lookups=case["lookups"][:i] + case["lookups"][i + 1:])


def property_violation(case, out):
    """C20 evaluated directly on the implementation's outcomes (used to classify a disagreement):
    a successful lookup must return group(s)/position(s) that currently contain the protein;
    a protein in no group must be reported missing."""
    for si, st in enumerate([{"groups": case["init"], "lookups": out["init_lookups"]}] + out["steps"]):
        groups = st["groups"]
        for l, o in zip(case["lookups"], st["lookups"]):
            if "raise" in o:
                continue
            k = l[0]
            if k == "group":
                if l[1] not in o["ok"] or o["ok"] not in groups:
                    return ("lookup-returns-foreign-group", si, l)
            elif k == "idxs":
                for i in o["ok"]:
                    if i == -1:
                        continue
                    if not (0 <= i < len(groups)) or not any(p in groups[i] for p in l[1]):
                        return ("idxs-returns-foreign-position", si, l)
                for p in l[1]:
                    if not any(p in g for g in groups) and -1 not in o["ok"]:
                        return ("unknown-protein-not-reported-missing", si, l)
                # the missing marker appears ONLY when some listed protein is in no group (a repeated identifier is not a missing one)
                if -1 in o["ok"] and all(any(p in g for g in groups) for p in l[1]):
                    return ("missing-marker-although-every-listed-protein-is-grouped", si, l)
                # ... and a protein that is in a group has that group's position in the answer (never silently "missing")
                for p in l[1]:
                    pos = [i for i, g in enumerate(groups) if p in g]
                    if pos and not any(i in o["ok"] for i in pos):
                        return ("grouped-protein-reported-missing", si, l)
            elif k == "groups":
                for g in o["ok"]:
                    if g not in groups or not any(p in g for p in l[1]):
                        return ("unknown-protein-mapped-to-existing-group", si, l)
                for p in l[1]:
                    if any(p in g for g in groups) and not any(p in g for g in o["ok"]):
                        return ("group-of-a-grouped-protein-not-returned", si, l)
            elif k == "leading":
                for x in o["ok"]:
                    if not any(g and g[0] == x and any(p in g for p in l[1]) for g in groups):
                        return ("leading-returns-foreign-protein", si, l)
    return None


def alias_sweep(r, n_cases):
    """two collections: dst.extend(src) hands src's group lists to dst (the same list objects); whatever dst does afterwards, a
    lookup in src - whose own index was never invalidated - must still return a group that contains the protein (monitor only: the
    functional model has no aliasing)"""
    from picked_group_fdr.protein_groups import ProteinGroups
    rng = r.rng
    n = 0
    for _ in range(n_cases):
        src_groups = [[f"S{i}{j}" for j in range(rng.choice([1, 2, 3]))] for i in range(rng.randint(1, 4))]
        dst_groups = [[f"D{i}{j}" for j in range(rng.choice([1, 2]))] for i in range(rng.randint(0, 3))]
        src = ProteinGroups.init_from_list([list(g) for g in src_groups])
        dst = ProteinGroups.init_from_list([list(g) for g in dst_groups])
        via_add_unseen = rng.random() < 0.4
        if via_add_unseen:
            # the rescue step's way of taking groups over (dst gets what it has not seen of src): the two collections then share nothing
            dst.add_unseen_protein_groups(src, list(range(len(src_groups))))
        else:
            dst.extend(src)
            dst.create_index()
        prots = [p for g in src_groups + dst_groups for p in g]
        ops = []
        for _ in range(rng.randint(1, 6)):
            k = rng.random()
            try:
                if k < 0.6:
                    a, b = rng.sample(prots, 2)
                    ops.append(["merge", a, b])
                    dst.merge_groups(a, b)
                elif k < 0.8:
                    ops.append(["remove_empty"])
                    dst.remove_empty_groups()
                else:
                    ops.append(["create_index"])
                    dst.create_index()
            except Exception:
                pass
            n += 1
            for p in (q for g in src_groups for q in g):
                try:
                    g1 = src.get_protein_group(p)
                    gs = src.get_protein_groups([p])
                except Exception:
                    continue            # failing loudly is allowed
                if p not in g1 or any(p not in g for g in gs) or not gs:
                    r.violation("property-failure", {"suite": "alias_sweep", "src": src_groups, "dst": dst_groups, "ops_on_dst": ops, "lookup_in_src": p,
                                                     "returned": [list(g1), [list(g) for g in gs]], "src_groups_now": [list(g) for g in src.protein_groups]},
                                True, f"alias_sweep: after dst.extend(src) and {ops} on dst, src's lookup of {p} returns {list(g1)} / "
                                      f"{[list(g) for g in gs]}, which does not contain it")
                    return n
            if via_add_unseen:
                # src was only READ: its groups are what they were and its index answers exactly by them
                now = [list(g) for g in src.protein_groups]
                problem = None
                if now != src_groups:
                    problem = f"src's groups changed to {now} although only dst was operated on"
                else:
                    for q in (x for g in now for x in g):
                        want = sorted(i for i, g in enumerate(now) if q in g)
                        try:
                            got = sorted(int(i) for i in src.get_protein_group_idxs([q]))
                        except Exception:
                            continue
                        if got != want:
                            problem = f"src's lookup of {q} gives positions {got}, it sits in {want}"
                            break
                if problem:
                    r.violation("property-failure", {"suite": "alias_sweep", "src": src_groups, "dst": dst_groups, "taken_over_by": "add_unseen_protein_groups",
                                                     "ops_on_dst": ops, "problem": problem}, True,
                                f"alias_sweep: after dst.add_unseen_protein_groups(src) and {ops} on dst: {problem}"[:400])
                    return n
    return n


SUITES = [HistorySuite()]


def suite_by_name(name):
    return next(s for s in SUITES if s.name == name)


def run(r: core.Runner):
    r.assumptions += [
        "list objects are not aliased between groups (the harness passes fresh lists)",
        "set iteration order of get_protein_groups / get_leading_proteins is canonicalised by sorting both sides",
    ]
    s = SUITES[0]
    # classify disagreements with the Python monitor of the property (soundness direction only)
    orig = r.violation

    def violation(kind, data, found_input, what):
        if data.get("suite") == s.name and "case" in data:
            out = s.impl(data["case"])
            v = property_violation(data["case"], out)
            if v:
                kind, found_input = "property-failure", True
                what = f"{s.name}: {v[0]} after step {v[1]} for lookup {v[2]}"
        orig(kind, data, found_input, what)
    r.violation = violation
    r.run_suite(s)
    r.traces = (r.traces or 0) + alias_sweep(r, core.tier_n(r.tier, 300, 5000))
    r.exhaustive = True
    r.extra["exhaustive_scope"] = "all operation sequences up to length %d over the 12-operation alphabet" % (4 if r.tier == "thorough" else 3)
