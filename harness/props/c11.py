"""C11 — MaxLFQ: staged correspondence of columns/lfq.py with Model/Lfq.v, least-squares conditions on the
implementation's own answer, metamorphic runs (order, sample permutation, scaling, renaming), FastLFQ graph."""
import math
import random
from fractions import Fraction

import numpy as np

from .. import core, gens
from ..core import Suite, cZ, cnat, cQ, cstr, clist, cpair, copt, cbool

PEPV = ["1/1048576", "1/8192", "1/64", "1/16", "1/2"]      # the third value IS the cutoff 1/64: a PSM at the cutoff is used (<=)


def fq(x):
    return Fraction(*float(x).as_integer_ratio())


def make_precursors(case):
    from picked_group_fdr.precursor_quant import PrecursorQuant as PQ
    out = []
    for i, r in enumerate(case["precs"]):
        inten = float("nan") if r["int"] == "nan" else float(r["int"])
        pep = float("nan") if r["pepv"] is None else float(Fraction(r["pepv"]))
        sil = np.array([float(x) for x in r["silac"][:case["ns"]]], dtype="float64") if case["ns"] else None
        out.append(PQ(r["pep"], r["charge"], case["names"][r["exp"]], r["frac"], inten, pep, None, sil, i))
    return out


def used(case, r):
    cut = float(Fraction(case["cut"]))
    return r["pepv"] is None or float(Fraction(r["pepv"])) <= cut


def gen_case(rng, nexp, npep, ns=0, consistent=True, graph=None, minr=None, stab=None, miss=None, clean=False, prefix="PEP",
             samples=None):
    b = [rng.choice([1, 2, 3, 5, 8, 16, 40, 100]) for _ in range(nexp * max(1, ns))]
    a = [rng.choice([1, 3, 4, 7, 10, 32]) for _ in range(npep)]
    miss = rng.choice([0.0, 0.2, 0.4, 0.6]) if miss is None else miss
    precs = []
    for p in range(npep):
        name = prefix + "ACDEFGHIKL"[p % 10] + ("(ox)" if p >= 10 else "") + "K"
        if npep > 20:           # large proteins: one distinct sequence per peptide
            name = prefix + "".join("ACDEFGHIKL"[int(dg)] for dg in str(p)) + "K"
        for ch in ([2, 3] if rng.random() < 0.3 else [2]):
            fracs = ["1", "2"] if rng.random() < 0.25 else ["1"]
            for s in (range(nexp) if samples is None else samples):
                if rng.random() < miss:
                    continue
                cell_bad = rng.random() < 0.1 and not clean
                for frac in (fracs if consistent or rng.random() < 0.7 else ["1"]):
                    noise = 1 if consistent else rng.choice([1, 1, 1, 2, 3, 5])
                    base = a[p] * noise * (1 if frac == "1" else 2) * (1 if ch == 2 else 4)
                    x = float(base * b[s * max(1, ns)] * 1024)
                    sil = [repr(float(base * b[s * ns + k] * 1024)) for k in range(ns)]
                    r = rng.random()
                    pepv = None if r < 0.1 else rng.choice(PEPV[:3]) if r < 0.9 else rng.choice(PEPV[3:])
                    if consistent:       # a PSM above the cutoff removes the whole (peptide, charge, sample) cell, not one fraction
                        pepv = rng.choice(PEPV[3:]) if cell_bad else (None if r < 0.1 else rng.choice(PEPV[:3]))
                    precs.append({"pep": name, "charge": ch, "exp": s, "frac": frac, "int": repr(x), "pepv": pepv, "silac": sil})
                    if rng.random() < 0.15 and not (consistent and pepv in PEPV[3:]):      # a second, weaker feature of the same precursor in the same fraction
                        precs.append({"pep": name, "charge": ch, "exp": s, "frac": frac, "int": repr(x / 2), "pepv": rng.choice(PEPV[:3]),
                                      "silac": [repr(float(v) / 2) for v in sil]})
                    if rng.random() < 0.05 and not clean:
                        precs.append({"pep": name, "charge": ch, "exp": s, "frac": "3", "int": rng.choice(["nan", "0.0"]),
                                      "pepv": rng.choice(PEPV[:3]), "silac": ["0.0"] * ns})
    rng.shuffle(precs)
    names = sorted(rng.sample(["ctrl", "treat", "a", "b10", "b2", "E1", "E2", "E10", "x_1", "x_2", "liver", "brain", "S", "T"], nexp))
    return {"precs": precs, "names": names, "ns": ns, "minr": minr or rng.choice([1, 2, 2, 3]),
            "stab": rng.random() < 0.5 if stab is None else stab, "graph": graph, "min_samples": rng.choice([2, 3, 10]),
            "cut": "1/64", "consistent": consistent, "b": b}


class StagedSuite(Suite):
    name = "lfq_stages"
    shard = 20
    imports = "From PGF Require Import Base.Prelude Model.Quant Model.Lfq Harness.H11."
    case_type = "c11_in * c11_out * bool"
    chk = "chk11"
    runf = "run11"
    deterministic = False
    has_py_property = True
    rule = ("protein groups with 1-8 peptides (two large proteins per run: 130-300 precursors in every sample; modified forms, 1-2 charge states, 1-2 fractions, weaker duplicate features, NaN / zero "
            "intensities, match-between-runs rows, PSMs above the PEP cutoff) over 2-8 samples (thorough: up to 14), intensities = peptide "
            "factor x sample factor on an integer grid, with and without multiplicative noise, missing values 0-60%; minimum ratio count "
            "1-3; stabilisation on / off; FastLFQ edge sets (random, with activation sizes 2, 3, 10); SILAC 2 / 3 channels; stages compared: "
            "peptide-intensity matrix and total (exact), median ratios (1e-13), log ratios after stabilisation (1e-11 with a tabulated ln), "
            "zero pattern, total (1e-9) and normal equations (1e-3) of the final answer; non-trivial = >= 2 ratio edges and a missing value")

    def gen(self, rng, tier):
        n = core.tier_n(tier, 260, 4000)
        for k in range(n):
            if k < (2 if tier != "thorough" else 8):
                # a large protein: 130-300 precursors shared by every pair of samples (counts beyond one signed / unsigned byte)
                c = gen_case(rng, rng.choice([3, 4]), rng.choice([130, 200, 260, 300]), consistent=k % 2 == 0, miss=0.0, clean=True, stab=False)
                c["minr"] = rng.choice([1, 2])
                yield c
                continue
            big = tier == "thorough" and k % 5 == 0
            nexp = rng.randint(9, 14) if big else rng.randint(2, 8)
            ns = rng.choice([0, 0, 0, 0, 2, 3]) if nexp <= 5 else 0
            graph = None
            if rng.random() < 0.3:
                nodes = list(range(nexp * max(1, ns)))
                graph = sorted({tuple(sorted(rng.sample(nodes, 2))) for _ in range(rng.randint(1, 3 * len(nodes)))})
                graph = [list(e) for e in graph]
            c = gen_case(rng, nexp, rng.randint(1, 8), ns=ns, consistent=rng.random() < 0.5, graph=graph)
            if graph is not None:
                # the activation size around the number of samples: FastLFQ counts the samples in which THIS protein has enough
                # peptides, not all samples of the experiment
                ncols = nexp * max(1, ns)
                c["min_samples"] = rng.choice([2, 3, 10, ncols, max(2, ncols - 1), max(2, ncols - 2)])
            if rng.random() < 0.08:
                # intensities in very small or very large units (exact powers of two): a missing value is exactly 0, nothing else
                k2 = 2.0 ** rng.choice([-40, -60, 40])
                for pr in c["precs"]:
                    if pr["int"] not in ("nan", "0.0"):
                        pr["int"] = repr(float(pr["int"]) * k2)
                    pr["silac"] = [repr(float(v) * k2) for v in pr["silac"]]
            yield c

    def shrink(self, case):
        for i in range(len(case["precs"])):
            yield dict(case, precs=case["precs"][:i] + case["precs"][i + 1:])
        if case["graph"]:
            yield dict(case, graph=None)
        if case["stab"]:
            yield dict(case, stab=False)

    def impl(self, case):
        import networkx as nx
        from picked_group_fdr.columns import lfq
        pl = make_precursors(case)
        emap = {n: i for i, n in enumerate(case["names"])}
        g = None
        if case["graph"] is not None:
            g = nx.Graph()
            g.add_nodes_from(range(len(case["names"]) * max(1, case["ns"])))
            g.add_edges_from([tuple(e) for e in case["graph"]])
        cap = {"medians": []}
        real_pi, real_mr, real_st, real_bn = lfq._getPeptideIntensities, lfq._getLogMedianPeptideRatios, lfq._applyLargeRatioStabilization, lfq.bn

        def w_pi(*a, **k):
            m, t = real_pi(*a, **k)
            cap["matrix"] = [[list(key), [float(x) for x in v]] for key, v in m.items()]
            cap["total"] = float(t)
            return m, t

        def w_mr(*a, **k):
            r = real_mr(*a, **k)
            cap["ratio_keys"] = [list(map(int, key)) for key in r.keys()]
            cap["logs"] = [[list(map(int, key)), float(v)] for key, v in r.items()]
            return r

        def w_st(*a, **k):
            r = real_st(*a, **k)
            cap["logs"] = [[list(map(int, key)), float(v)] for key, v in r.items()]
            cap["stabilised"] = True
            return r

        class BN:
            @staticmethod
            def nanmedian(x):
                v = real_bn.nanmedian(x)
                cap["medians"].append(float(v))
                return v
        lfq._getPeptideIntensities, lfq._getLogMedianPeptideRatios, lfq._applyLargeRatioStabilization, lfq.bn = w_pi, w_mr, w_st, BN
        try:
            try:
                out = lfq._getLFQIntensities(pl, emap, float(Fraction(case["cut"])), case["minr"], case["stab"], g, case["min_samples"], case["ns"])
            except Exception as e:
                return {"raise": gens.exn_name(e), "msg": str(e)[:200], **cap}
        finally:
            lfq._getPeptideIntensities, lfq._getLogMedianPeptideRatios, lfq._applyLargeRatioStabilization, lfq.bn = real_pi, real_mr, real_st, real_bn
        cap["final"] = [float(x) for x in out]
        return cap

    # independent recomputation of what the property talks about
    def _summed(self, case):
        ne, ns = len(case["names"]), case["ns"]
        s = [0.0] * (ne * max(1, ns))
        for r in case["precs"]:
            if r["int"] == "nan" or not used(case, r):
                continue
            if ns:
                for k in range(ns):
                    s[r["exp"] * ns + k] += float(r["silac"][k])
            else:
                s[r["exp"]] += float(r["int"])
        return s

    def _total_used(self, case):
        best = {}
        for r in case["precs"]:
            if r["int"] == "nan" or float(r["int"]) <= 0 or not used(case, r):
                continue
            key = (r["pep"], r["charge"], r["exp"], r["frac"])
            if key not in best or float(r["int"]) > float(best[key]["int"]):
                best[key] = r
        if case["ns"]:
            return sum(float(x) for r in best.values() for x in r["silac"][:case["ns"]])
        return sum(float(r["int"]) for r in best.values())

    def render(self, case, out):
        ne = len(case["names"])
        rows = [cpair(cstr(r["pep"]), cZ(r["charge"]), cnat(r["exp"]), cstr(case["names"][r["exp"]]), cstr(r["frac"]),
                      copt(None if r["int"] == "nan" else cQ(fq(float(r["int"])))),
                      copt(None if r["pepv"] is None else cQ(Fraction(r["pepv"]))),
                      clist(cQ(fq(float(x))) for x in r["silac"][:case["ns"]])) for r in case["precs"]]
        g = None if case["graph"] is None else clist(cpair(cnat(i), cnat(j)) for i, j in case["graph"])
        cin = cpair(clist(rows), clist(cstr(n) for n in case["names"]), cQ(Fraction(case["cut"])), cnat(case["ns"]), cnat(case["minr"]),
                    cbool(case["stab"]), copt(g), cnat(case["min_samples"]))
        nonfinite = "raise" not in out and any(not math.isfinite(x) for x in list(out.get("medians", [])) + [v for _, v in out.get("logs", [])]
                                                + list(out.get("final", [])) + [x for _, v in out.get("matrix", []) for x in v])
        if "raise" in out or nonfinite:
            # no exception (and no NaN / inf in any stage) is part of the model: a disagreement by construction
            return cpair(cin, cpair("[]", cQ(-1), "[]", "[]", "[]", "[]"), "false")
        mat = clist(cpair(cpair(cstr(k[0]), cZ(k[1])), clist(cQ(fq(x)) for x in v)) for k, v in out.get("matrix", []))
        keys = out.get("ratio_keys", [])
        meds = out.get("medians", [])
        medl = clist(cpair(cpair(cnat(k[0]), cnat(k[1])), cQ(fq(m))) for k, m in zip(keys, meds)) if len(keys) == len(meds) else "[((0, 0), 0)]"
        logs = clist(cpair(cpair(cnat(k[0]), cnat(k[1])), cQ(fq(v))) for k, v in out.get("logs", []))
        final = out["final"]
        lt = {}
        for m in meds:
            if m > 0 and math.isfinite(m):
                lt[fq(m)] = fq(float(np.log(m)))
        s = self._summed(case)
        if case["stab"]:
            for i in range(len(s)):
                for j in range(i + 1, len(s)):
                    if s[i] > 0 and s[j] > 0:
                        q = s[i] / s[j]
                        lt[fq(q)] = fq(float(np.log(q)))
        for x in final:
            if x > 0 and math.isfinite(x):
                lt[fq(x)] = fq(float(np.log(x)))
        ok_final = all(math.isfinite(x) for x in final)
        cout = cpair(mat, cQ(fq(out.get("total", 0.0))), medl, logs,
                     clist(cQ(fq(x)) for x in final) if ok_final else "[]",
                     clist(cpair(cQ(k), cQ(v)) for k, v in lt.items()))
        return cpair(cin, cout, cbool(self.py_property(case, out) is None))

    def nontrivial(self, case, out):
        return len(out.get("logs", [])) >= 2 and any(v == 0 for _, row in out.get("matrix", []) for v in row)

    def describe(self, case, out):
        return {"samples": len(case["names"]), "silac": case["ns"], "min_ratios": case["minr"], "stabilise": case["stab"],
                "graph": "none" if case["graph"] is None else "edges", "consistent": case["consistent"],
                "ratio_edges": min(len(out.get("logs", [])), 10), "outcome": out.get("raise", "ok")}

    def signature(self, case, out):
        return self.py_property(case, out) or "lfq-stage-model-mismatch"

    def py_property(self, case, out):
        if "raise" in out:
            return "lfq-raised-" + out["raise"]
        final = out["final"]
        if not all(math.isfinite(x) and x >= 0 for x in final):
            return "lfq-non-finite-or-negative"
        if any(not math.isfinite(x) for x in list(out.get("medians", [])) + [v for _, v in out.get("logs", [])]):
            return "lfq-non-finite-ratio"
        logs = {tuple(k): v for k, v in out.get("logs", [])}
        if case["ns"] == 0:
            # the ratio edges are exactly the sample pairs with enough own and shared peptides that the FastLFQ graph links
            rows = cell_matrix(case["precs"], float(Fraction(case["cut"])), len(case["names"]))
            n = len(case["names"])
            valid = [k for k in range(n) if sum(1 for v in rows.values() if v[k] > 0) >= case["minr"]]
            active = case["graph"] is not None and len(valid) >= case["min_samples"]
            gset = {tuple(sorted(e)) for e in (case["graph"] or [])}
            want = {(i, j) for a, i in enumerate(valid) for j in valid[a + 1:]
                    if (not active or (i, j) in gset) and sum(1 for v in rows.values() if v[i] > 0 and v[j] > 0) >= case["minr"]}
            if want != set(logs):
                return "lfq-ratio-edges-are-not-the-linked-pairs-with-enough-shared-peptides"
        if not any(x > 0 for x in final):
            return "lfq-all-zero-although-sample-pairs-are-linked" if logs else None
        tot = self._total_used(case)
        if abs(sum(final) - tot) > 1e-9 * tot:
            return "lfq-total-not-preserved"
        nodes = {i for k in logs for i in k}
        for k in range(len(final)):
            if (final[k] > 0) != (k in nodes):
                return "lfq-unlinked-sample-not-zero"
        # least squares: normal equations at the answer
        x = {k: math.log(final[k]) for k in nodes}
        for k in nodes:
            gsum = 0.0
            for (i, j), v in logs.items():
                if i == k:
                    gsum += x[i] - x[j] - v
                if j == k:
                    gsum -= x[i] - x[j] - v
            if abs(gsum) > 1e-3:
                return "lfq-not-least-squares"
        if case["stab"]:
            # large-ratio stabilisation: very unequal peptide counts -> summed-intensity ratio
            ns = max(1, case["ns"])
            summed = self._summed(case)
            peps = [set() for _ in case["names"]]
            for r in case["precs"]:
                if used(case, r):
                    peps[r["exp"]].add(r["pep"])
            cnt = [len(peps[k // ns]) for k in range(len(summed))]
            meds = dict(zip([tuple(k) for k in out.get("ratio_keys", [])], out.get("medians", [])))
            for (i, j), v in logs.items():
                if not (cnt[i] and cnt[j]):
                    continue
                rr = max(cnt[i], cnt[j]) / min(cnt[i], cnt[j])
                if rr > 5:
                    if abs(v - math.log(summed[i] / summed[j])) > 1e-9:
                        return "lfq-large-ratio-not-stabilised"
                elif rr > 2.5 and (i, j) in meds:
                    w = (rr - 2.5) / 2.5
                    if abs(v - (w * math.log(summed[i] / summed[j]) + (1 - w) * math.log(meds[(i, j)]))) > 1e-9:
                        return "lfq-large-ratio-not-stabilised"
        if case["consistent"] and not case["stab"]:
            b = case["b"]
            for (i, j) in logs:
                if abs(math.log(final[i] / final[j]) - math.log(b[i] / b[j])) > 1e-3:
                    return "lfq-not-proportional-on-consistent-data"
        return None


def cell_matrix(precs, cut, n):
    """independent recomputation of the peptide-intensity matrix of one label-free group: row (peptide, charge), one cell per
    sample = sum over fractions of the most intense used feature"""
    best = {}
    for r in precs:
        if r["int"] == "nan" or float(r["int"]) <= 0 or not (r["pepv"] is None or float(Fraction(r["pepv"])) <= cut):
            continue
        key = (r["pep"], r["charge"], r["exp"], r["frac"])
        best[key] = max(best.get(key, 0.0), float(r["int"]))
    rows = {}
    for (pep, ch, e, _), x in best.items():
        rows.setdefault((pep, ch), [0.0] * n)[e] += x
    return rows


def even_median_pairs(precs, cut, n):
    """sample pairs whose peptide ratios are even in number with two different middle values: there the arithmetic median of
    i/j is not the inverse of that of j/i (finding D13)"""
    rows = cell_matrix(precs, cut, n)
    out = []
    for i in range(n):
        for j in range(i + 1, n):
            rs = sorted(Fraction(v[i]) / Fraction(v[j]) for v in rows.values() if v[i] > 0 and v[j] > 0)
            if rs and len(rs) % 2 == 0 and rs[len(rs) // 2 - 1] != rs[len(rs) // 2]:
                out.append((i, j))
    return out


class InProcessPool:
    """stand-in for job_pool.JobPool (the third-party pool is absent here): same interface, jobs run at once, results in
    submission order - which is what the real pool's checkPool returns"""

    def __init__(self, *a, **k):
        self.results = []

    def applyAsync(self, f, fargs, *a, **k):
        self.results.append(f(*fargs))

    def checkPool(self, *a, **k):
        return self.results


def run_columns(groups, names, ns, minr, stab, fast, min_nb, avg_nb, min_samples, cut, threads=1):
    """LFQIntensityColumns.append_columns on several groups; returns per-group LFQ values, the graph handed to the per-group
    routine and the per-group routine's own results"""
    from picked_group_fdr.columns import lfq
    from picked_group_fdr.results import ProteinGroupResult, ProteinGroupResults
    pgr = ProteinGroupResults([ProteinGroupResult(proteinIds=f"P{i}", majorityProteinIds=f"P{i}", qValue=0.001, score=1.0,
                                                  precursorQuants=list(pl)) for i, pl in enumerate(groups)])
    pgr.experiments = list(names)
    pgr.num_silac_channels = ns if ns else 0
    pgr.num_tmt_channels = 0
    col = lfq.LFQIntensityColumns(minr, stab, fast_lfq=fast, fast_lfq_min_neighbors=min_nb, fast_lfq_avg_neighbors=avg_nb,
                                  fast_lfq_min_samples=min_samples, num_threads=threads)
    real_pool = getattr(lfq, "JobPool", None)
    if threads > 1:
        lfq.JobPool = InProcessPool
    cap = {"graphs": [], "direct": []}
    real = lfq._getLFQIntensities

    def w(*a, **k):
        g = a[5]
        cap["graphs"].append(None if g is None else sorted(tuple(sorted((int(u), int(v)))) for u, v in g.edges()))
        r = real(*a, **k)
        cap["direct"].append([float(x) for x in r])
        return r
    lfq._getLFQIntensities = w
    try:
        try:
            col.append_columns(pgr, cut)
        except Exception as e:
            cap["raise"] = gens.exn_name(e)
            cap["msg"] = str(e)[:200]
    finally:
        lfq._getLFQIntensities = real
        if threads > 1:
            lfq.JobPool = real_pool
    cap["columns"] = [[float(x) for x in r.extraColumns] for r in pgr]
    return cap


def close_vec(a, b, tol):
    return len(a) == len(b) and all(abs(x - y) <= tol * max(abs(x), abs(y), 1e-300) for x, y in zip(a, b))


class ColumnsSuite(Suite):
    """append_columns: the FastLFQ sample graph vs the model; metamorphic runs"""
    name = "lfq_columns_and_graph"
    imports = StagedSuite.imports
    case_type = "c11g_in * list (nat * nat) * bool"
    chk = "chk11g"
    runf = "run11g"
    deterministic = False
    has_py_property = True
    rule = ("2-4 protein groups over 3-14 samples, FastLFQ on (min neighbours 1-3, average 2-6, activation size 2-10) and off; the "
            "graph handed to the per-group routine is compared with the Coq model of build_graph / prune_graph on the peptide sets per "
            "sample index; metamorphic runs on the written columns: order-preserving renaming of samples (identical), precursor order "
            "(1e-9), scaling by 2^k (1e-9), sample permutation by renaming (FastLFQ off, 1e-5); non-trivial = FastLFQ on with a pruned graph")

    def gen(self, rng, tier):
        for _ in range(core.tier_n(tier, 60, 600)):
            if rng.random() < 0.35:
                # two batches of samples with batch-specific background peptides: nearest neighbours and the average-degree fill stay
                # inside the batches, so the pruned graph needs its connectivity repair; the target group is consistent and complete
                k = rng.randint(3, 6)
                nexp = 2 * k
                tgt = gen_case(rng, nexp, rng.randint(2, 4), consistent=True, miss=0.0, clean=True, prefix="TGT")
                bga = gen_case(rng, nexp, rng.randint(4, 8), consistent=True, miss=0.0, clean=True, prefix="BGA", samples=range(0, k))
                bgb = gen_case(rng, nexp, rng.randint(4, 8), consistent=True, miss=0.0, clean=True, prefix="BGB", samples=range(k, nexp))
                yield {"groups": [tgt["precs"], bga["precs"], bgb["precs"]], "names": tgt["names"], "cut": "1/64", "minr": rng.choice([1, 2]),
                       "stab": False, "fast": True, "min_nb": rng.randint(1, 2), "avg_nb": rng.randint(2, 3), "min_samples": 2,
                       "seed": rng.randint(0, 10 ** 9), "targets": [{"group": 0, "b": tgt["b"]}]}
                continue
            nexp = rng.randint(3, 14)
            groups = [gen_case(rng, nexp, rng.randint(1, 6), consistent=rng.random() < 0.5) for _ in range(rng.randint(2, 4))]
            names = groups[0]["names"]
            if rng.random() < 0.3:
                # a group left without any precursor (the writer empties groups whose PSMs are all above the cutoff)
                groups.insert(rng.randrange(len(groups) + 1), {"precs": []})
            yield {"groups": [g["precs"] for g in groups], "names": names, "cut": "1/64", "minr": rng.choice([1, 2, 2]),
                   "stab": rng.random() < 0.5, "fast": rng.random() < 0.75, "min_nb": rng.randint(1, 3), "avg_nb": rng.randint(2, 6),
                   "min_samples": rng.choice([2, 4, 10]), "seed": rng.randint(0, 10 ** 9)}

    def _groups(self, case, names=None, order=None, scale=1.0):
        out = []
        for gi, precs in enumerate(case["groups"]):
            c = {"precs": precs, "names": names or case["names"], "ns": 0}
            pl = make_precursors(c)
            if scale != 1.0:
                for p in pl:
                    p.intensity = p.intensity * scale
            if order is not None:
                random.Random(order + gi).shuffle(pl)
            out.append(pl)
        return out

    def _run(self, case, threads=1, **kw):
        names = kw.get("names") or case["names"]
        return run_columns(self._groups(case, **kw), names, 0, case["minr"], case["stab"], case["fast"], case["min_nb"], case["avg_nb"],
                           case["min_samples"], float(Fraction(case["cut"])), threads=threads)

    def impl(self, case):
        base = self._run(case)
        res = {"base": base}
        n = len(case["names"])
        # order-preserving renaming: names that sort the same way
        ren = [f"s{k:03d}_{nm[::-1]}" for k, nm in enumerate(case["names"])]
        res["renamed"] = self._run(case, names=ren)
        res["reordered"] = self._run(case, order=case["seed"])
        res["scaled"] = self._run(case, scale=8.0)
        # --num_threads 2: the per-group jobs go through a pool (an in-process stand-in with the pool's interface); same columns
        res["threaded"] = self._run(case, threads=2)
        if not case["fast"]:
            perm = list(range(n))
            random.Random(case["seed"]).shuffle(perm)
            # sample k is now called so that it sorts to position perm[k]
            pnames = [f"q{perm[k]:03d}" for k in range(n)]
            sorted_names = sorted(pnames)
            groups = []
            for precs in case["groups"]:
                c = {"precs": [dict(r, exp=perm[r["exp"]]) for r in precs], "names": sorted_names, "ns": 0}
                groups.append(make_precursors(c))
            res["permuted"] = run_columns(groups, sorted_names, 0, case["minr"], case["stab"], False, case["min_nb"], case["avg_nb"],
                                          case["min_samples"], float(Fraction(case["cut"])))
            res["perm"] = perm
        return res

    def render(self, case, out):
        n = len(case["names"])
        sets = [set() for _ in range(n)]
        for precs in case["groups"]:
            for r in precs:
                sets[r["exp"]].add(r["pep"])
        g = out["base"]["graphs"][0] if out["base"]["graphs"] else None
        mon = self.py_property(case, out) is None
        if not case["fast"] or g is None:
            # no graph is built: a trivially agreeing case (empty sample list, no edges) unless a graph appeared without being asked for
            return cpair(cpair("[]", cnat(1), cnat(1)), "[]" if g is None else "[(0%nat, 1%nat)]", cbool(mon))
        return cpair(cpair(clist(clist(cstr(p) for p in sorted(s)) for s in sets), cnat(case["min_nb"]), cnat(case["avg_nb"])),
                     clist(cpair(cnat(i), cnat(j)) for i, j in g), cbool(mon))

    def nontrivial(self, case, out):
        n = len(case["names"])
        g = out["base"]["graphs"][0] if out["base"]["graphs"] else None
        return bool(case["fast"] and g is not None and len(g) < n * (n - 1) // 2)

    def describe(self, case, out):
        return {"samples": len(case["names"]), "fast_lfq": case["fast"], "groups": len(case["groups"]),
                "outcome": out["base"].get("raise", "ok")}

    def signature(self, case, out):
        return self.py_property(case, out) or "fastlfq-graph-model-mismatch"

    def py_property(self, case, out):
        base = out["base"]
        for k in ("base", "renamed", "reordered", "scaled", "permuted", "threaded"):
            if k in out and "raise" in out[k]:
                return "lfq-columns-raised-" + out[k]["raise"]
        if base["columns"] != base["direct"]:
            return "lfq-columns-differ-from-per-group-result"
        if any(g != base["graphs"][0] for g in base["graphs"]):
            return "lfq-graph-differs-between-groups"
        for t in case.get("targets", []):
            cols, b = base["columns"][t["group"]], t["b"]
            if not all(x > 0 for x in cols) or any(abs(math.log(cols[i] / cols[0]) - math.log(b[i] / b[0])) > 1e-3 for i in range(len(b))):
                return "lfq-not-proportional-on-consistent-data"
        if out["renamed"]["columns"] != base["columns"]:
            return "lfq-depends-on-experiment-names"
        if "threaded" in out and out["threaded"]["columns"] != base["columns"]:
            return "lfq-columns-differ-with-several-threads"
        for a, b in zip(out["reordered"]["columns"], base["columns"]):
            if not close_vec(a, b, 1e-9):
                return "lfq-depends-on-precursor-order"
        for a, b in zip(out["scaled"]["columns"], base["columns"]):
            if not close_vec(a, [8.0 * x for x in b], 1e-9):
                return "lfq-does-not-scale-with-input"
        if "permuted" in out:
            perm = out["perm"]
            for a, b in zip(out["permuted"]["columns"], base["columns"]):
                if not close_vec([a[perm[k]] for k in range(len(b))], b, 1e-5):
                    cut = float(Fraction(case["cut"]))
                    if any(even_median_pairs(precs, cut, len(case["names"])) for precs in case["groups"]):
                        return "lfq-sample-order-even-count-median"
                    return "lfq-does-not-permute-with-samples"
        return None


SUITES = [StagedSuite(), ColumnsSuite()]


def suite_by_name(name):
    return next(s for s in SUITES if s.name == name)


def chain_designs(r, n_cases):
    """many samples linked in a CHAIN (sample k shares peptides only with k+1: a time course, a dilution series) - the sparsest
    connected design, where the least-squares problem needs the most iterations; intensities are exactly peptide factor x sample
    factor, so the LFQ intensities must be proportional to the sample factors and sum to the summed intensity (monitor only)"""
    from picked_group_fdr.columns import lfq
    from picked_group_fdr.precursor_quant import PrecursorQuant as PQ
    n = 0
    for _ in range(n_cases):
        rng = r.rng
        ns = rng.choice([12, 25, 30, 40, 60])
        per_link = rng.choice([2, 3])
        b = [float(2 ** rng.randint(0, 4) * rng.choice([1, 3, 5])) for _ in range(ns)]
        names = [f"S{k:03d}" for k in range(ns)]
        precs, total = [], 0.0
        for k in range(ns - 1):
            for j in range(per_link):
                a = float(2 ** rng.randint(8, 12))
                for smp in (k, k + 1):
                    precs.append(PQ(f"PEP{k}x{j}K", 2, names[smp], "1", a * b[smp], 0.001, None, None, len(precs)))
                    total += a * b[smp]
        rng.shuffle(precs)
        stab = rng.random() < 0.5
        n += 1
        try:
            out = [float(x) for x in lfq._getLFQIntensities(precs, {nm: i for i, nm in enumerate(names)}, 0.01, per_link, stab, None, 10, 0)]
            ratio = [o / f for o, f in zip(out, b)]
            spread = max(ratio) / min(ratio) - 1 if min(ratio) > 0 else float("inf")
            problem = None
            if spread > 1e-3:
                problem = f"LFQ / sample factor varies by {spread:.2%} across the samples"
            elif abs(sum(out) - total) > 1e-6 * total:
                problem = f"LFQ intensities sum to {sum(out)}, the peptides used sum to {total}"
        except Exception as e:
            problem = f"raised {type(e).__name__}: {e}"[:160]
        if problem:
            r.violation("property-failure", {"suite": "chain_designs", "samples": ns, "peptides_per_link": per_link, "sample_factors": b,
                                             "stabilisation": stab, "problem": problem}, True,
                        f"chain_designs: {ns} samples in a chain, consistent data, stabilisation {stab}: {problem}")
            return n
    return n


def order_tie_replay(r):
    """The witness of C11_precursor_order_matters_on_full_key_ties on the real code: two rows that tie on the whole sort key (peptide,
    charge, experiment, fraction, intensity, PEP) and differ in their SILAC channels, in both orders - plus a control in which the
    two rows differ in their PEP (the key separates them: C11_precursor_order_invariant applies, the order must not matter)."""
    from picked_group_fdr.columns import lfq
    from picked_group_fdr.precursor_quant import PrecursorQuant as PQ

    def run(peps, order):
        rows = [PQ("PEPA", 2, "E1", "1", 3.0, peps[0], None, np.array([1.0, 2.0]), 0),
                PQ("PEPA", 2, "E1", "1", 3.0, peps[1], None, np.array([2.0, 1.0]), 1),
                PQ("PEPA", 2, "E2", "1", 4.0, 0.01, None, np.array([2.0, 2.0]), 2)]
        pi, tot = lfq._getPeptideIntensities([rows[i] for i in order], {"E1": 0, "E2": 1}, 1.0, 2, 4)
        return {f"{k[0]}/{k[1]}": [float(x) for x in v] for k, v in pi.items()}, float(tot)
    n = 0
    for label, peps in (("full-key tie", (0.01, 0.01)), ("PEPs differ", (0.01, 0.02))):
        a, b = run(peps, [0, 1, 2]), run(peps, [1, 0, 2])
        n += 2
        if a == b:
            continue
        data = {"suite": "order_tie_replay", "rows": label, "first_order": a, "second_order": b}
        if label == "full-key tie":
            kf = r.match_finding("lfq-precursor-order-full-key-tie-silac")
            if kf is not None:
                msg = f"KNOWN-FINDING: property={r.pid} {kf['what']}"
                if msg not in r.known_hits:
                    r.known_hits.append(msg)
                continue
        r.violation("property-failure", data, True,
                    f"order_tie_replay ({label}): the peptide-intensity matrix depends on the order of the precursor list")
    return n


def run(r: core.Runner):
    r.traces = (r.traces or 0) + order_tie_replay(r) + chain_designs(r, core.tier_n(r.tier, 6, 40))
    r.assumptions += [
        "np.log / np.exp / float division / bottleneck.nanmedian / scipy lsqr are outside the model: medians are compared to 1e-13, "
        "log values through a tabulated ln to 1e-11, the least-squares answer through its normal equations to 1e-3 (lsqr tolerances 1e-6)",
        "intensities on an integer grid (float sums exact); in the RANDOM inputs precursors with equal intensity in one (peptide, charge, "
        "sample, fraction) cell carry equal SILAC vectors (the proviso of C11_precursor_order_invariant; what happens without it is "
        "the open finding D16, replayed by order_tie_replay)",
    ]
    for s in SUITES:
        r.run_suite(s, max_report=2)
