"""C13 — output tables: rectangular, uniquely headed, re-readable; csv dialect; FDR filter."""
import csv
import os
import tempfile

from .. import core, gens
from ..core import Suite, cN, cnat, cstr, clist, cpair, cbool, cok, craise
from .quant_common import make_quant_inputs, run_cli_capture


def read_cells(path):
    with open(path, newline="", encoding="utf-8-sig") as fh:
        return list(csv.reader(fh, delimiter="\t"))


class HeaderSuite(Suite):
    """the CLI with quantification: header of the written table vs the generator model; rectangular; re-readable"""
    name = "written_table_headers"
    imports = "From PGF Require Import Base.Prelude Base.Csv Model.Table Harness.H13."
    case_type = "c13h_in * res (list str)"
    chk = "chk13h"
    runf = "run13h"
    deterministic = False
    has_py_property = True
    rule = ("CLI runs with --do_quant: MaxQuant evidence with 1-4 experiments, label-free / SILAC (2, 3 channels) / TMT (1-2 channels), "
            "with and without --skip_lfq; DIA-NN reports with 1-3 runs; minimal writer; header compared with the generator model, every "
            "row checked for length, read-back of ids / q-values / scores compared with the in-memory results; non-trivial = >= 2 "
            "experiments or a labelling")

    def gen(self, rng, tier):
        combos = []
        for e in (1, 2, 3):
            combos += [("maxquant", e, 0, 0, False), ("maxquant", e, 0, 0, True)]
        combos += [("maxquant", 1, 2, 0, False), ("maxquant", 2, 2, 0, False), ("maxquant", 2, 3, 0, False),
                   ("maxquant", 1, 0, 1, False), ("maxquant", 2, 0, 2, False),
                   ("diann", 1, 0, 0, False), ("diann", 2, 0, 0, False), ("diann", 3, 0, 0, False),
                   ("minimal", 2, 0, 0, False)]
        reps = 2 if tier != "thorough" else 8
        for _ in range(reps):
            for kind, e, s, t, skip in combos:
                yield {"kind": kind, "n_exp": e, "silac": s, "tmt": t, "skip_lfq": skip, "seed": rng.randint(0, 10 ** 9)}

    def impl(self, case):
        import random
        rng = random.Random(case["seed"])
        d = tempfile.mkdtemp(prefix="c13_", dir=core.scratch())
        inp = make_quant_inputs(d, rng, n_exp=case["n_exp"], silac=case["silac"], tmt=case["tmt"], diann=case["kind"] == "diann")
        out = os.path.join(d, "pg.txt")
        if case["kind"] == "diann":
            argv = ["--diann_reports", inp["evidence"], "--methods", "diann", "--do_quant", "--fasta", inp["fasta"],
                    "--protein_groups_out", out]
        else:
            argv = ["--mq_evidence", inp["evidence"], "--methods", "picked_protein_group_mq_input", "--fasta", inp["fasta"],
                    "--protein_groups_out", out] + (["--do_quant"] if case["kind"] == "maxquant" else []) + \
                   (["--lfq_skip"] if False else [])
            if case["skip_lfq"] and case["kind"] == "maxquant":
                argv += ["--skip_lfq"]
        cap = run_cli_capture(argv)
        res = {"exception": cap.get("exception"), "exit": cap.get("exit")}
        if case["kind"] == "maxquant":
            # the experiments the header must name are a fact about the INPUT (the model is not to be asked about whatever set the
            # implementation arrived at)
            res["input_experiments"] = sorted({r["experiment"] for r in inp["rows"]})
        if os.path.exists(out):
            cells = read_cells(out)
            res["header"] = cells[0] if cells else []
            res["row_lengths"] = [len(r) for r in cells[1:]]
            res["cells"] = cells[1:]
        if "results" in cap and "header" in res:
            pgr = cap["results"]
            res["experiments"] = list(pgr.experiments)
            res["mem"] = [[r.proteinIds, repr(float(r.qValue)), repr(float(r.score))] for r in pgr]
            # read back with the tool's own reader (MaxQuant-format tables only)
            if case["kind"] != "diann":
                from picked_group_fdr.parsers import maxquant as mqp
                back = mqp.parse_mq_protein_groups_file(out)
                res["readback"] = [[r.proteinIds, repr(float(r.qValue)), repr(float(r.score))] for r in back]
        return res

    def render_in(self, case):
        return None

    def render(self, case, out):
        kind = {"minimal": 0, "maxquant": 1, "diann": 2}[case["kind"]]
        exps = out.get("experiments") or [f"E{i + 1}" for i in range(case["n_exp"])]
        if case["kind"] == "minimal":
            exps = []
        cin = cpair(cnat(kind), cbool(case["skip_lfq"]), clist(cstr(e) for e in exps), cnat(case["silac"]), cnat(case["tmt"]))
        if "header" in out and self.py_property(case, out) is None:
            o = cok(clist(cstr(h) for h in out["header"]))
        elif "header" in out:
            # the monitor found the written table broken (ragged, truncated, not re-readable): never agrees with the model
            o = craise("OtherError")
        else:
            o = craise("ValueError" if "ValueError" in (out.get("exception") or "") else "OtherError")
        return cpair(cin, o)

    def nontrivial(self, case, out):
        return case["n_exp"] >= 2 or case["silac"] or case["tmt"]

    def describe(self, case, out):
        return {"writer": case["kind"], "experiments": case["n_exp"], "silac": case["silac"], "tmt": case["tmt"],
                "outcome": "ok" if "header" in out and not out.get("exception") else (out.get("exception") or "no output")[:40]}

    def signature(self, case, out):
        return self.py_property(case, out) or "table-header-model-mismatch"

    def py_property(self, case, out):
        if out.get("exception"):
            return f"writer-{case['kind']}-raised-with-{case['n_exp']}-experiments"
        if "header" not in out:
            return "no-table-written"
        h = out["header"]
        if len(set(h)) != len(h):
            return "duplicate-column-headers"
        if any(n != len(h) for n in out["row_lengths"]):
            return "row-length-differs-from-header"
        if "input_experiments" in out and "experiments" in out and list(out["experiments"]) != out["input_experiments"]:
            return "experiments-of-the-table-are-not-the-experiments-of-the-evidence"
        if "readback" in out and out["readback"] != out["mem"]:
            return "read-back-differs-from-written-results"
        if case["kind"] == "diann" and "mem" in out:
            # the DIA-NN layout writes UniProt accessions: same rows in the same order, one accession per identifier
            ids = [r[0].split(";") for r in out["cells"]]
            mem = [[p.split("|")[1] if p.count("|") >= 2 else p for p in m[0].split(";")] for m in out["mem"]]
            if ids != mem:
                return "read-back-differs-from-written-results"
        return None


class CsvSuite(Suite):
    name = "csv_dialect"
    imports = HeaderSuite.imports
    case_type = "list (list str) * str"
    chk = "chk13w"
    runf = "run13w"
    deterministic = True
    rule = ("rows of 0-5 cells over an alphabet with TAB, quote, CR, LF, ';', space and letters, written with the tool's tsv writer "
            "and read with its tsv reader; the bytes are compared with the Coq writer and the Coq reader is applied to them; "
            "non-trivial = a cell needing quotes")

    def gen(self, rng, tier):
        alpha = ["a", "b", "\t", '"', "\r", "\n", ";", " ", "", "x"]
        for _ in range(core.tier_n(tier, 800, 12000)):
            rows = []
            for _ in range(rng.randint(1, 4)):
                rows.append(["".join(rng.choice(alpha) for _ in range(rng.randint(0, 4))) for _ in range(rng.randint(1, 5))])
            yield {"rows": rows}

    def impl(self, case):
        from picked_group_fdr.parsers import tsv
        p = os.path.join(core.scratch(), "csv.tsv")
        with tsv.get_tsv_writer(p) as w:
            for r in case["rows"]:
                w.writerow(r)
        data = open(p, "rb").read().decode("utf-8")
        with tsv.get_tsv_reader(p) as rd:
            back = [list(r) for r in rd]
        return {"bytes": data, "back": back}

    def render(self, case, out):
        # the tool's own reader must give back the rows; otherwise send bytes that cannot match
        data = out["bytes"] if out["back"] == case["rows"] else "<reader does not invert writer>"
        return cpair(clist(clist(cstr(c) for c in r) for r in case["rows"]), cstr(data))

    def nontrivial(self, case, out):
        return any(ch in c for r in case["rows"] for c in r for ch in '\t"\r\n')


class FilterSuite(Suite):
    name = "filter_fdr_maxquant"
    imports = HeaderSuite.imports
    case_type = "(list (str * bool) * list (list str)) * res (list (list str))"
    chk = "chk13f"
    runf = "run13f"
    deterministic = True
    rule = ("proteinGroups files with 0-10 rows, q-values around the cutoff incl. exactly equal, nan (an unset q-value) and inf, a nan cutoff, cells with separators, Q-value column at "
            "varying positions; cutoffs 0.01/0.05/1; non-trivial = a kept and a dropped row")

    def gen(self, rng, tier):
        for _ in range(core.tier_n(tier, 400, 6000)):
            qpos = rng.randint(0, 3)
            header = ["A", "B", "C", "D"]
            header[qpos] = "Q-value"
            cutoff = rng.choice([0.01, 0.05, 1.0, 0.01, 0.05, 1.0, float("nan")])
            rows = []
            for _ in range(rng.randint(0, 10)):
                r = [rng.choice(["P1;P2", "x\ty", 'q"q', "", "7"]) for _ in range(4)]
                r[qpos] = rng.choice([repr(cutoff), "0.0", "0.5", "1e-05", repr(cutoff * 1.0000001), "0.010", "1", "nan", "inf"])    # (an unset q-value is written as nan)
                rows.append(r)
            yield {"header": header, "rows": rows, "cutoff": cutoff}

    def impl(self, case):
        from picked_group_fdr.pipeline import filter_fdr_maxquant as f
        d = core.scratch()
        inp, out = os.path.join(d, "pgin.txt"), os.path.join(d, "pgout.txt")
        with open(inp, "w", newline="") as fh:
            w = csv.writer(fh, delimiter="\t")
            w.writerow(case["header"])
            for r in case["rows"]:
                w.writerow(r)
        try:
            f.filterProteinGroupsAtFDR([inp], out, case["cutoff"])
        except Exception as e:
            return {"raise": gens.exn_name(e)}
        return {"ok": read_cells(out)}

    def render(self, case, out):
        qi = case["header"].index("Q-value")
        tab = {r[qi]: float(r[qi]) <= case["cutoff"] for r in case["rows"]}
        t = clist(cpair(cstr(k), cbool(v)) for k, v in tab.items())
        file = clist(clist(cstr(c) for c in r) for r in [case["header"]] + case["rows"])
        o = craise(out["raise"]) if "raise" in out else cok(clist(clist(cstr(c) for c in r) for r in out["ok"]))
        return cpair(cpair(t, file), o)

    def nontrivial(self, case, out):
        return "ok" in out and 1 < len(out["ok"]) < len(case["rows"]) + 1


SUITES = [HeaderSuite(), CsvSuite(), FilterSuite()]


def suite_by_name(name):
    return next(s for s in SUITES if s.name == name)


def reread_with_columns(r, n_cases):
    """a written table re-read with a request for further columns to carry over (some present in the file, some not, in any order) and
    written again: rectangular, one value per header, the carried columns under their own header, an absent one empty (monitor only)"""
    import tempfile
    from picked_group_fdr.results import ProteinGroupResult, ProteinGroupResults
    from picked_group_fdr.parsers import maxquant as mqp
    d = tempfile.mkdtemp(prefix="c13reread_", dir=core.scratch())
    n = 0
    for k in range(n_cases):
        rng = r.rng
        extra = rng.sample(["Gene names", "Fasta headers", "Intensity E1", "Sequence coverage [%]", "iBAQ"], rng.randint(0, 4))
        rows = []
        for i in range(rng.randint(1, 4)):
            cells = {h: rng.choice(["", "x y", "a;b", "7.5", 'q"q', "t\tt"]) for h in extra}
            rows.append((f"P{i};Q{i}", cells))
        pgr = ProteinGroupResults([ProteinGroupResult(proteinIds=ids, majorityProteinIds=ids, peptideCountsUnique="1;1", bestPeptide="PEPTIDEK",
                                                      numberOfProteins=2, qValue=0.001 * (i + 1), score=7.5 - i,
                                                      extraColumns=[cells[h] for h in extra]) for i, (ids, cells) in enumerate(rows)])
        pgr.append_headers(extra)
        first = os.path.join(d, f"first_{k}.txt")
        second = os.path.join(d, f"second_{k}.txt")
        pgr.write(first)
        absent = rng.sample(["Mol. weight [kDa]", "LFQ intensity E9", "Gene names ", "gene names"], rng.randint(0, 2))
        wanted = [h for h in extra if rng.random() < 0.8] + absent
        rng.shuffle(wanted)
        n += 1
        problem = None
        try:
            back = mqp.parse_mq_protein_groups_file(first, additional_headers=list(wanted))
            back.write(second)
            table = read_cells(second)
            if len(set(table[0])) != len(table[0]):
                problem = f"repeated header in {table[0]}"
            elif any(len(row) != len(table[0]) for row in table[1:]):
                problem = f"a row has {[len(row) for row in table[1:]]} cells under {len(table[0])} headers"
            elif len(table) != len(rows) + 1:
                problem = f"{len(table) - 1} rows for {len(rows)} groups"
            else:
                for h in wanted:
                    col = table[0].index(h) if h in table[0] else None
                    got = [row[col] for row in table[1:]] if col is not None else None
                    want = [cells.get(h, "") for _, cells in rows]
                    if got != want:
                        problem = f"column {h!r} carried over as {got}, the file read holds {want}"
                        break
                if problem is None and [row[0] for row in table[1:]] != [ids for ids, _ in rows]:
                    problem = "identifier column changed"
        except Exception as e:
            problem = f"raised {type(e).__name__}: {e}"[:160]
        if problem:
            r.violation("property-failure", {"suite": "reread_with_columns", "columns_in_the_file": extra, "columns_requested": wanted,
                                             "rows": [[ids, cells] for ids, cells in rows], "problem": problem}, True,
                        f"reread_with_columns: file with {extra}, re-read asking for {wanted}: {problem}"[:400])
            return n
    return n


def foreign_bytes(r):
    """a protein-group table that is not valid UTF-8 (written by a Windows producer in cp1252: umlauts, the micro sign): the FDR filter and
    the re-read either refuse it or hand the kept rows / identifiers back unchanged - never silently altered (monitor only)"""
    import tempfile
    from picked_group_fdr.parsers import maxquant as mqp
    from picked_group_fdr.pipeline import filter_fdr_maxquant as f
    d = tempfile.mkdtemp(prefix="c13bytes_", dir=core.scratch())
    header = ["Protein IDs", "Majority protein IDs", "Peptide counts (unique)", "Best peptide", "Number of proteins", "Q-value", "Score",
              "Reverse", "Potential contaminant", "Fasta headers"]
    rows = [["M\u00dcLLER_HUMAN", "M\u00dcLLER_HUMAN", "3", "", "1", "0.001", "12.5", "", "", "M\u00fcller kinase 5 \u00b5g"],
            ["M\u00d6LLER_HUMAN", "M\u00d6LLER_HUMAN", "2", "", "1", "0.002", "11.5", "", "", "plain"],
            ["REV__sp|P3|X", "REV__sp|P3|X", "1", "", "1", "0.5", "1.5", "+", "", ""]]
    n = 0
    for enc in ("utf-8", "cp1252"):
        path, out = os.path.join(d, f"pg_{enc}.txt"), os.path.join(d, f"pg_{enc}_filtered.txt")
        data = "".join("\t".join(row) + "\r\n" for row in [header] + rows).encode(enc)
        with open(path, "wb") as fh:
            fh.write(data)
        n += 1
        problem = None
        try:
            f.filterProteinGroupsAtFDR([path], out, 0.01)
            kept = open(out, "rb").read().splitlines()
            if kept[1:] != data.splitlines()[1:3]:
                problem = f"the FDR filter returned normally but the kept rows are not the input rows: {kept[1:2]}"
        except UnicodeDecodeError:
            pass
        except Exception as e:
            problem = f"filter raised {type(e).__name__}: {e}"[:160]
        if problem is None:
            try:
                back = [x.proteinIds for x in mqp.parse_mq_protein_groups_file(path)]
                if back != [row[0] for row in rows]:
                    problem = f"the re-read returned normally but the identifiers are {back}"
            except UnicodeDecodeError:
                pass
            except Exception as e:
                problem = f"re-read raised {type(e).__name__}: {e}"[:160]
        if problem:
            r.violation("property-failure", {"suite": "foreign_bytes", "encoding_of_the_file": enc, "problem": problem}, True,
                        f"foreign_bytes: a table written in {enc}: {problem}"[:400])
            break
    return n


def long_cells(r):
    """a very large group: identifier cells far beyond the csv module's default field limit (131072 characters) are written, read back
    and filtered like any other cell (monitor only: the strings are too long for a Coq literal)"""
    import tempfile
    from picked_group_fdr.results import ProteinGroupResult, ProteinGroupResults
    from picked_group_fdr.parsers import maxquant as mqp
    from picked_group_fdr.pipeline import filter_fdr_maxquant as f
    d = tempfile.mkdtemp(prefix="c13long_", dir=core.scratch())
    n = 0
    for nprot in (3, 7000):
        ids = ";".join(f"sp|Q{i:05d}|PROT{i:05d}_HUMAN" for i in range(nprot))
        pgr = ProteinGroupResults([ProteinGroupResult(proteinIds=ids, majorityProteinIds=ids, peptideCountsUnique=";".join(["1"] * nprot),
                                                      bestPeptide="PEPTIDEK", numberOfProteins=nprot, qValue=0.001, score=7.5),
                                   ProteinGroupResult(proteinIds="REV__X", majorityProteinIds="REV__X", peptideCountsUnique="1",
                                                      bestPeptide="KEDITPEP", numberOfProteins=1, qValue=0.5, score=1.5, reverse="+")])
        out, flt = os.path.join(d, f"pg_{nprot}.txt"), os.path.join(d, f"pg_{nprot}_filtered.txt")
        pgr.write(out)
        n += 1
        try:
            back = mqp.parse_mq_protein_groups_file(out)
            got = [[x.proteinIds, float(x.qValue), float(x.score)] for x in back]
            f.filterProteinGroupsAtFDR([out], flt, 0.01)
            kept = read_cells(flt)
            problem = None
            if got != [[ids, 0.001, 7.5], ["REV__X", 0.5, 1.5]]:
                problem = "read-back differs from the written results"
            elif len(kept) != 2 or kept[1][0] != ids or kept[1] != read_cells(out)[1]:
                problem = "the FDR filter does not keep the row unchanged"
        except Exception as e:
            problem = f"{type(e).__name__}: {e}"[:160]
        if problem:
            r.violation("property-failure", {"suite": "long_cells", "proteins_in_the_group": nprot, "longest_cell_chars": len(ids), "problem": problem},
                        True, f"long_cells: a table with an identifier cell of {len(ids)} characters: {problem}")
            break
    return n


def run(r: core.Runner):
    r.assumptions += [
        "repr(float) / float(str) round-trips (language guarantee); float(cell) <= cutoff of the filter is a tabulated oracle",
        "the csv module is tied to Base/Csv.v by byte-level correspondence (writer) and by applying the Coq reader to the same bytes",
        "Triqler columns (need a condition file and the triqler package) and the FragPipe writers are exercised only by C18's CLI runs",
    ]
    for s in SUITES:
        r.run_suite(s, max_report=2)
    r.traces = (r.traces or 0) + (long_cells(r) or 0) + reread_with_columns(r, core.tier_n(r.tier, 60, 800)) + foreign_bytes(r)
