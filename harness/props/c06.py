"""C06 — reported rows vs Model/Results.v (from_protein_group(s))."""
from .. import core
from .results_common import RowsSuite

SUITES = [RowsSuite()]


def suite_by_name(name):
    return next(s for s in SUITES if s.name == name)


def run(r: core.Runner):
    r.assumptions += [
        "evidence entries of a group are one per peptide (the pipeline keys evidence by peptide); the theorems "
        "carry this as a NoDup hypothesis, the correspondence also runs cases that repeat a peptide",
        "PEPs and scores cross as exact rationals; identifiers contain no ';' only where the harness parses "
        "the joined count string (ids themselves are compared as joined strings)",
    ]
    for s in SUITES:
        r.run_suite(s)
