"""C06 — reported rows vs Model/Results.v (from_protein_group(s))."""
from .. import core
from .pipeline_common import PipelineSuite
from .results_common import RowsSuite

SUITES = [RowsSuite()]


SUITES_EXTRA = []


def suite_by_name(name):
    return next(s for s in SUITES + [PipelineSuite()] if s.name == name)


def run(r: core.Runner):
    r.assumptions += [
        "evidence entries of a group are one per peptide (the pipeline keys evidence by peptide); the theorems "
        "carry this as a NoDup hypothesis, the correspondence also runs cases that repeat a peptide",
        "PEPs and scores cross as exact rationals; identifiers contain no ';' only where the harness parses "
        "the joined count string (ids themselves are compared as joined strings)",
    ]
    for s in SUITES:
        r.run_suite(s)
    # the same guarantees through the whole inference function, for a cross-section of the shipped methods
    ps = PipelineSuite(methods=["picked_protein_group_mq_input", "classic_protein_group", "maxquant_mq_best_picked",
                                "savitski_mq_mult", "savitski", "razor_picked_mq_input"])
    SUITES_EXTRA.append(ps)
    r.run_suite(ps)
