"""C08 — in-silico digestion vs Model/Digest.v and vs the declarative cleavage rule (spec_digest)."""
import itertools

from .. import core
from ..core import Suite, cN, cnat, cstr, clist, cpair, cbool

MODES = {"full": 2, "semi": 1, "none": 0}
SHAPES = [(["K"], ["P"], []), ([], [], ["D"]), (["M"], [], []), (["K"], ["P"], ["D"]), (["K", "M"], [], [])]
WINDOWS = [(1, 3), (2, 4), (3, 3), (1, 8), (2, 2)]


def rl(chars):
    return clist(cN(ord(c)) for c in chars)


class DigestSuite(Suite):
    name = "get_digested_peptides"
    imports = "From PGF Require Import Base.Prelude Model.Digest Harness.H08."
    case_type = "c08_in * list str"
    chk = "chk08"
    runf = "run08"
    pb = "pb08"          # the implementation's output against the declarative rule, evaluated in Coq
    rule = ("sequences over the reduced alphabet {A,K,P,D,M} up to length 5 (quick: seeded sample; thorough: all, plus length "
            "6-7 samples) x 5 enzyme shapes x 5 windows x budgets 0-2 x methionine on/off x 3 modes; random sequences up to "
            "length 60 over 20 residues with every enzyme of the table; outputs compared as sets; non-trivial = at least one "
            "enzymatic site inside the sequence and a C-terminal peptide sitting on a window bound")

    def gen(self, rng, tier):
        alpha = "AKPDM"
        seqs = []
        for n in range(1, 6):
            seqs += ["".join(t) for t in itertools.product(alpha, repeat=n)]
        if tier != "thorough":
            small = [s for s in seqs if len(s) <= 3]
            seqs = small + rng.sample(seqs, 500)
        else:
            seqs += ["".join(rng.choice(alpha) for _ in range(rng.choice([6, 7]))) for _ in range(4000)]
        for s in seqs:
            k = 3 if tier != "thorough" else 12
            for _ in range(k):
                e = rng.choice(SHAPES)
                mn, mx = rng.choice(WINDOWS)
                yield {"enzyme": [list(e[0]), list(e[1]), list(e[2])], "mode": rng.choice(list(MODES)), "seq": s,
                       "min": mn, "max": mx, "mc": rng.choice([0, 1, 2]), "met": rng.random() < 0.5}
        from picked_group_fdr import digest
        table = digest.ENZYME_CLEAVAGE_RULES
        aas = "ACDEFGHIKLMNPQRSTVWY"
        for _ in range(core.tier_n(tier, 400, 15000)):
            name = rng.choice(sorted(table))
            e = table[name]
            n = rng.choice([1, 2, 5, 10, 20, 30])
            s = "".join(rng.choice(aas) for _ in range(n))
            if rng.random() < 0.5:
                s = "M" + s[1:]
            if rng.random() < 0.3 and e["pre"]:
                s = s[:-1] + rng.choice(e["pre"])        # protein ending in a cleavage residue
            mn = rng.choice([1, 2, 5, 6, 7])
            mx = mn + rng.choice([0, 1, 5, 20, 50])
            yield {"enzyme": [list(e["pre"]), list(e["not_post"]), list(e["post"])], "mode": rng.choice(list(MODES)),
                   "seq": s, "min": mn, "max": mx, "mc": rng.choice([0, 1, 2, 3]), "met": rng.random() < 0.6,
                   "enzyme_name": name}

        # proteins longer than 256 residues (the median human protein has about 400): every mode, two enzymes, ends in a cleavage residue or not
        for n in ([257, 300] if tier != "thorough" else [257, 258, 300]):
            for mode in MODES:
                for name in ("trypsin", "asp-n"):
                    e = table[name]
                    s = "".join(rng.choice(aas) for _ in range(n))
                    if rng.random() < 0.5:
                        s = "M" + s[1:]
                    if rng.random() < 0.3 and e["pre"]:
                        s = s[:-1] + rng.choice(e["pre"])
                    yield {"enzyme": [list(e["pre"]), list(e["not_post"]), list(e["post"])], "mode": mode, "seq": s,
                           "min": 6, "max": rng.choice([12, 30]), "mc": rng.choice([0, 2]), "met": rng.random() < 0.6, "enzyme_name": name}

    def impl(self, case):
        from picked_group_fdr import digest
        e = case["enzyme"]
        mode = {"full": "full", "semi": "semi", "none": "none"}[case["mode"]]
        out = digest.get_digested_peptides(case["seq"], case["min"], case["max"], e[0], e[1], e[2], mode, case["mc"], case["met"])
        return sorted(set(out))

    def render_in(self, case):
        e = case["enzyme"]
        return cpair(cpair(rl(e[0]), rl(e[1]), rl(e[2])), cnat(MODES[case["mode"]]), cstr(case["seq"]), cnat(case["min"]),
                     cnat(case["max"]), cnat(case["mc"]), cbool(case["met"]))

    def render(self, case, out):
        return cpair(self.render_in(case), clist(cstr(p) for p in out))

    def nontrivial(self, case, out):
        s, e = case["seq"], case["enzyme"]
        site = any((s[i] in e[0] and s[i + 1] not in e[1]) or s[i + 1] in e[2] for i in range(len(s) - 1))
        cterm = [p for p in out if s.endswith(p)]
        return site and any(len(p) in (case["min"], case["max"]) for p in cterm)

    def describe(self, case, out):
        n = len(case["seq"])
        return {"mode": case["mode"], "len": "1-3" if n <= 3 else "4-7" if n <= 7 else "8+", "met": case["met"],
                "n_peptides": min(len(out), 20), "enzyme": case.get("enzyme_name", "shape")}

    def signature(self, case, out):
        return "digest-" + case["mode"]

    def shrink(self, case):
        s = case["seq"]
        if len(s) > 80:
            # a long protein: no residue-by-residue search (every candidate costs seconds in the kernel) - a few coarse cuts only;
            # a failure that needs the length (a count crossing 256) then keeps its long witness
            for cut in (s[:len(s) // 2], s[len(s) // 2:], s[:60], s[-60:]):
                c = dict(case)
                c["seq"] = cut
                yield c
            return
        for i in range(len(s)):
            if len(s) > 1:
                c = dict(case)
                c["seq"] = s[:i] + s[i + 1:]
                yield c
        if case["mc"] > 0:
            c = dict(case)
            c["mc"] = case["mc"] - 1
            yield c


SUITES = [DigestSuite()]


def suite_by_name(name):
    return next(s for s in SUITES if s.name == name)


def run(r: core.Runner):
    # the digest module's own command line, all outputs in one call, against the functions called one by one (shared with C09)
    from .c09 import main_differential, arg_round_trip
    r.traces = (r.traces or 0) + main_differential(r, core.tier_n(r.tier, 25, 300)) + arg_round_trip(r, core.tier_n(r.tier, 200, 3000))
    r.assumptions += [
        "protein sequences are non-empty and min_len >= 1 (the tool's defaults are 7 and 60)",
        "peptide sets are compared as sets (duplicates and generation order are not observable through the peptide map)",
    ]
    # the regenerated enzyme table (parsed from the source AST) equals the table the running code uses
    from picked_group_fdr import digest
    from .. import gen_tables_more
    ast_table = gen_tables_more._enzymes_from_ast()
    if [(n, r) for n, r in ast_table] != [(n, {k: list(v) for k, v in r.items()}) for n, r in digest.ENZYME_CLEAVAGE_RULES.items()]:
        r.violation("correspondence", {"suite": "gen_enzymes"}, found_input=False,
                    what="regenerated enzyme table (AST) disagrees with digest.ENZYME_CLEAVAGE_RULES at run time")
    # name resolution: the rule the code digests with for enzyme NAME n is n's own entry of the table (the suites below take their rules
    # from the table, so a name that resolves to another entry would be invisible to them)
    for n, rule in ast_table:
        try:
            got = digest.get_cleavage_sites(n)
            got = [list(got[0]), list(got[1]), list(got[2])]
        except Exception as e:
            got = f"{type(e).__name__}: {e}"[:100]
        want = [list(rule["pre"]), list(rule["not_post"]), list(rule["post"])]
        if got != want:
            r.violation("property-failure", {"suite": "enzyme_name_resolution", "enzyme": n, "rule_used": got, "rule_of_the_table": want}, True,
                        f"enzyme_name_resolution: get_cleavage_sites({n!r}) = {got}, the table entry of that name is {want}")
            break
    r.run_suite(SUITES[0], max_report=3)
