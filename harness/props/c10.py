"""C10 — evidence ingestion (five input formats, remap or not) vs Model/Ingest.v."""
import csv
import math
import os
from fractions import Fraction

import numpy as np

from .. import core, filegen, gens
from ..core import Suite, cQ, cnat, cstr, clist, cpair, cbool, copt, cok, craise

FMT = {"MaxQuant": 0, "Perc": 1, "Mokapot": 2, "FragPipe": 3, "Sage": 4, "DIA-NN": 5}
DESC = {"MaxQuant": ["bestPEP", "no_remap bestPEP", "bestPEP razor"], "Perc": ["Perc bestPEP", "Perc remap bestPEP"],
        "Mokapot": ["Perc bestPEP", "Perc remap bestPEP"], "FragPipe": ["FragPipe bestPEP"], "Sage": ["Sage bestPEP"],
        "DIA-NN": ["DIA-NN bestPEP"]}
SEQS = ["AAAMK", "CCCDK", "LLLMR", "GGGCR", "MMMK", "EEEEK", "TTTSR"]


def modify(rng, seq, fmt):
    """a modified form of [seq] in the notation of the format; remove_modifications must give back seq"""
    out = []
    for i, c in enumerate(seq):
        out.append(c)
        r = rng.random()
        if c == "M" and r < 0.5:
            # every notation the search engines behind a format write: integer masses, decimal mass shifts (with '.', '+'), UNIMOD ids
            out.append({"MaxQuant": rng.choice(["(ox)", "(Oxidation (M))"]), "Perc": rng.choice(["[16]", "[15.9949]", "[+15.995]", "[UNIMOD:35]"]),
                        "Mokapot": rng.choice(["[UNIMOD:35]", "[15.9949]", "[+16]"]), "FragPipe": rng.choice(["[147]", "[147.0354]"]),
                        "Sage": "[+15.9949]", "DIA-NN": "(UniMod:35)"}[fmt])
        elif c == "C" and r < 0.5:
            out.append({"MaxQuant": "(ca)", "Perc": rng.choice(["[57]", "[57.0215]"]), "Mokapot": rng.choice(["[UNIMOD:4]", "[57.0215]"]),
                        "FragPipe": "[160]", "Sage": "[+57.0215]", "DIA-NN": "(UniMod:4)"}[fmt])
    s = "".join(out)
    if fmt == "MaxQuant" and rng.random() < 0.2:
        s = "(ac)" + s
    if fmt in ("Perc", "Mokapot", "Sage") and rng.random() < 0.15:
        s = rng.choice(["[42.0106]", "[+42.0106]-", "[UNIMOD:1]"]) + s if fmt != "Perc" else rng.choice(["[42.0106]", "[42]"]) + s
    return s


def gen_rows(rng, n):
    rows = []
    # a quarter of the files name their targets like UniProt's HIV-1 Rev entries and relatives: REV with ONE underscore, other letter
    # cases - near misses of the decoy prefixes REV__ / rev_, which they are not
    names = ["REV_HV1H2", "Rev_erb", "P2", "REVOLVER", "sp|P04618|REV_HV1H2"] if rng.random() < 0.25 else [f"P{j}" for j in range(5)]
    for i in range(n):
        seq = rng.choice(SEQS)
        decoy = rng.random() < 0.3
        k = rng.choice([1, 1, 2, 3])
        prots = [("REV__" if (decoy or rng.random() < 0.15) else "") + names[rng.randrange(5)] for _ in range(k)]
        prots = list(dict.fromkeys(prots))
        r = rng.random()
        pep = None if r < 0.08 else rng.choice([1e-5, 0.001, 0.001, 0.02, 0.5, 1.0]) if r < 0.7 else max(1e-6, round(rng.random() ** 3, 6))
        rows.append({"peptide": seq, "proteins": prots, "pep": pep, "charge": rng.choice([2, 3]),
                     "experiment": rng.choice(["E1", "E2"]), "raw": "raw1", "intensity": 1000.0, "id": i})
    return rows


def write_file(fmt, path, rows, rng, flanks):
    for p in rows:
        p["mod"] = modify(rng, p["peptide"], fmt)
        p["mod_fp"] = p["mod"] if p["mod"] != p["peptide"] else ""
        p["mod_sage"] = p["mod"]
        p["mod_diann"] = p["mod"]
    usable = [p for p in rows if p["pep"] is not None or fmt == "MaxQuant"]
    for p in usable:
        if p["pep"] is not None:
            p["prob"] = float(repr(1.0 - p["pep"]))
            p["log10pep"] = float(repr(math.log10(p["pep"])))
    if fmt == "MaxQuant":
        filegen.write_maxquant(path, usable, header_case=rng.choice([str, str.upper, str.lower]))
    elif fmt == "Perc":
        filegen.write_percolator(path, usable, mokapot=False, flanks=flanks)
    elif fmt == "Mokapot":
        filegen.write_percolator(path, usable, mokapot=True, flanks=flanks)
    elif fmt == "FragPipe":
        filegen.write_fragpipe(path, usable)
    elif fmt == "Sage":
        filegen.write_sage(path, usable)
    else:
        filegen.write_diann(path, usable)
    return usable


def read_cells(path):
    with open(path, newline="", encoding="utf-8-sig") as f:
        rows = list(csv.reader(f, delimiter="\t"))
    return rows[0], rows[1:]


def num_table(fmt, path, header, rows):
    """score cell -> the PEP the parser derives from it, computed with the same primitives (float / numpy / pandas)"""
    tab = {}
    if fmt == "DIA-NN":
        import pandas as pd
        df = pd.read_csv(path, sep="\t")
        col = header.index("PEP")
        for r, v in zip(rows, df["PEP"].tolist()):
            tab[r[col]] = None if v != v else float(v)
        return tab
    col = {"MaxQuant": "pep", "Perc": "posterior_error_prob", "Mokapot": "mokapot pep", "FragPipe": "PeptideProphet Probability",
           "Sage": "posterior_error"}[fmt]
    idx = [h.lower() for h in header].index(col.lower())
    for r in rows:
        c = r[idx]
        if c == "":
            continue
        x = float(c)
        if fmt == "FragPipe":
            x = 1 - x + 1e-16
        elif fmt == "Sage":
            x = float(np.power(10, x))
        tab[c] = None if x != x else x
    return tab


def remaps(fmt, desc):
    if fmt in ("Perc", "Mokapot"):
        return "remap" in desc
    if fmt == "MaxQuant":
        return "no_remap" not in desc
    return False


def render_map(m):
    return clist(cpair(cstr(k), clist(cstr(p) for p in v)) for k, v in m.items())


class IngestSuite(Suite):
    name = "parse_evidence_files"
    imports = "From PGF Require Import Base.Prelude Model.Fasta Model.Scoring Model.Ingest Harness.H10."
    case_type = "c10_in * res pil"
    chk = "chk10"
    runf = "run10"
    deterministic = False
    has_py_property = True
    rule = ("1-3 files of one of six formats (MaxQuant, Percolator native / mokapot header, FragPipe, Sage, DIA-NN tsv), 1-12 PSM rows "
            "in any order, the same peptide under several modifications, charges and files, missing PEPs, mixed target/decoy protein "
            "lists, each file with its own peptide map when the score type remaps, unknown peptides; non-trivial = a peptide seen in "
            ">= 2 rows with different PEPs and a protein list mixing targets and decoys; 40% of the multi-file inputs pass ONE map in a "
            "one-element list, half of those after an earlier parse of the first 1-2 files that was handed the same list object")

    def gen(self, rng, tier):
        for _ in range(core.tier_n(tier, 500, 8000)):
            fmt = rng.choice(list(FMT))
            desc = rng.choice(DESC[fmt])
            nfiles = rng.choice([1, 1, 2, 3])
            files = []
            for _ in range(nfiles):
                rows = gen_rows(rng, rng.randint(1, 12))
                pmap = None
                if remaps(fmt, desc):
                    pmap = {}
                    for s in rng.sample(SEQS, rng.randint(3, len(SEQS))):
                        ps = [rng.choice(["", "", "REV__"]) + f"P{rng.randrange(5)}" for _ in range(rng.choice([1, 2, 3]))]
                        pmap[s] = list(dict.fromkeys(ps))
                files.append({"rows": rows, "map": pmap, "flanks": rng.choice([False, False, "dash", "dash", "residue", "dash_first", "residue_first"])})
            case = {"fmt": fmt, "desc": desc, "files": files, "seed": rng.randint(0, 10 ** 9)}
            if nfiles >= 2 and rng.random() < 0.4:
                # one digest map for all files (the command line's usual shape: a one-element list), and - as with several methods
                # in one command line - an earlier parse of the first files that was given the SAME list object
                for f in files[1:]:
                    f["map"] = files[0]["map"]
                case["shared_map"] = True
                case["prior"] = rng.choice([0, 1, 2]) if nfiles == 3 else rng.choice([0, 1])
            elif nfiles >= 2 and not remaps(fmt, desc) and rng.random() < 0.5:
                # a run with two digestion parameter sets hands its two digest maps to EVERY method of the command line; a method that
                # takes the proteins from the file ignores them and still reads all its files
                case["maps_of_the_run"] = rng.choice([1, 2])
            yield case

    def _materialise(self, case):
        import random
        rng = random.Random(case["seed"])
        d = os.path.join(core.scratch(), "c10")
        os.makedirs(d, exist_ok=True)
        out = []
        for i, f in enumerate(case["files"]):
            path = os.path.join(d, f"ev{i}.tsv")
            rows = [dict(r) for r in f["rows"]]
            write_file(case["fmt"], path, rows, rng, f["flanks"])
            out.append(path)
        return out

    def impl(self, case):
        from picked_group_fdr.parsers import evidence
        from picked_group_fdr.scoring_strategy import ProteinScoringStrategy
        paths = self._materialise(case)
        st = ProteinScoringStrategy(case["desc"])
        maps = [f["map"] for f in case["files"]]
        if case.get("shared_map"):
            maps = [case["files"][0]["map"]]
            if case.get("prior"):
                try:
                    evidence.parse_evidence_files(paths[:case["prior"]], maps, ProteinScoringStrategy(case["desc"]), True)
                except Exception:
                    pass
        if case.get("maps_of_the_run"):
            maps = [{"AAAAAAK": ["P9"]}, {"CCCCCCK": ["P8", "REV__P7"]}][:case["maps_of_the_run"]]
        try:
            pil = evidence.parse_evidence_files(paths, maps, st, True)
        except Exception as e:
            return {"raise": gens.exn_name(e), "msg": str(e)[:120]}
        if any(v[0] != v[0] for v in pil.values()):
            return {"raise": "OtherError", "msg": "a peptide is stored with a NaN score: " + str([k for k, v in pil.items() if v[0] != v[0]][:3])}
        return {"ok": [[k, gens.fr(v[0]), list(v[1])] for k, v in pil.items()]}

    def render_in(self, case):
        paths = self._materialise(case)
        files, tab = [], {}
        for path, f in zip(paths, case["files"]):
            header, rows = read_cells(path)
            tab.update(num_table(case["fmt"], path, header, rows))
            files.append(cpair(copt(None if f["map"] is None else render_map(f["map"])), clist(cstr(h) for h in header),
                               clist(clist(cstr(c) for c in r) for r in rows)))
        t = clist(cpair(cstr(k), copt(None if v is None else cQ(Fraction(*float(v).as_integer_ratio())))) for k, v in tab.items())
        return cpair(cnat(FMT[case["fmt"]]), cbool("razor" in case["desc"]), t, clist(files))

    def render(self, case, out):
        if "raise" in out:
            o = craise(out["raise"])
        else:
            o = cok(clist(cpair(cstr(k), cpair(cQ(Fraction(s)), clist(cstr(p) for p in ps))) for k, s, ps in out["ok"]))
        return cpair(self.render_in(case), o)

    def nontrivial(self, case, out):
        rows = [r for f in case["files"] for r in f["rows"]]
        by = {}
        for r in rows:
            if r["pep"] is not None:
                by.setdefault(r["peptide"], set()).add(r["pep"])
        mixed = any(any(p.startswith("REV__") for p in r["proteins"]) and not all(p.startswith("REV__") for p in r["proteins"]) for r in rows)
        return any(len(v) >= 2 for v in by.values()) and mixed

    def describe(self, case, out):
        return {"format": case["fmt"], "score_type": case["desc"], "files": len(case["files"]), "outcome": out.get("raise", "ok")}

    def py_property(self, case, out):
        """C10 on the implementation's output: lowest PEP per stripped peptide; target lists carry no decoys"""
        if "ok" not in out:
            return "parser-raised-" + out.get("raise", "?")
        got = {k: (Fraction(s), ps) for k, s, ps in out["ok"]}
        for k, (s, ps) in got.items():
            d = [p.startswith("REV__") or p.startswith("rev_") for p in ps]
            if any(d) and not all(d):
                return "target-peptide-keeps-decoy-proteins"
            if any(ch in k for ch in "()[]_-."):
                return "modifications-or-flanks-not-stripped"
        # best PEP: recompute from the rows for formats/score types that do not remap
        remap = remaps(case["fmt"], case["desc"])
        best = {}
        for f in case["files"]:
            for r in f["rows"]:
                if r["pep"] is None:
                    continue
                if remap and (f["map"] is None or r["peptide"] not in f["map"]):
                    continue
                best[r["peptide"]] = min(best.get(r["peptide"], 2.0), r["pep"])
        for k, (s, ps) in got.items():
            if k in best and abs(float(s) - best[k]) > 1e-9 * max(1.0, best[k]) + 2e-16:
                return "stored-pep-is-not-the-minimum-over-all-psms"
        if set(best) - set(got):
            return "peptide-with-a-pep-missing-from-the-result"
        # the proteins stored with the best PEP are those of the PSM that achieved it (first one reaching the minimum)
        def norm(ps):
            dec = [p.startswith("REV__") or p.startswith("rev_") for p in ps]
            if any(dec) and not all(dec):
                ps = [p for p, d in zip(ps, dec) if not d]
            return sorted({("REV__" + p[4:]) if p.startswith("rev_") else p for p in ps})
        owner = {}
        for f in case["files"]:
            for r in f["rows"]:
                if r["pep"] is None:
                    continue
                ps = (f["map"] or {}).get(r["peptide"], []) if remap else r["proteins"]
                if not ps:
                    continue
                if case["fmt"] == "DIA-NN":
                    # the report carries one decoy flag per row: set iff every listed protein is a decoy; identifiers are bare
                    dec = all(q.startswith("REV__") for q in ps)
                    ps = [q if dec else (q[5:] if q.startswith("REV__") else q) for q in ps]
                if r["peptide"] not in owner or r["pep"] < owner[r["peptide"]][0]:
                    owner[r["peptide"]] = (r["pep"], norm(ps))
        for k, (s, ps) in got.items():
            if k in owner and norm(ps) != owner[k][1]:
                return "best-pep-stored-with-the-proteins-of-another-psm"
        return None

    def shrink(self, case):
        for i, f in enumerate(case["files"]):
            for j in range(len(f["rows"])):
                if len(f["rows"]) > 1:
                    c = dict(case)
                    c["files"] = [dict(x) for x in case["files"]]
                    c["files"][i]["rows"] = f["rows"][:j] + f["rows"][j + 1:]
                    yield c
        if len(case["files"]) > 1:
            for i in range(len(case["files"])):
                c = dict(case)
                c["files"] = case["files"][:i] + case["files"][i + 1:]
                yield c


class StripSuite(Suite):
    name = "remove_modifications"
    imports = IngestSuite.imports
    case_type = "str * str"
    chk = "chk10m"
    deterministic = True
    rule = ("peptides with one-level (..)/[..] modifications, two-level parentheses, ProForma terminal modifications ([m]- / -[m]), unbalanced "
            "brackets, hyphens and flanking characters anywhere; non-trivial = nested parentheses")

    def gen(self, rng, tier):
        alpha = "ACK()[]M-"
        for _ in range(core.tier_n(tier, 800, 10000)):
            if rng.random() < 0.5:
                s = "".join(rng.choice(alpha) for _ in range(rng.randint(0, 12)))
            else:
                s = modify(rng, rng.choice(SEQS), rng.choice(list(FMT)))
                if rng.random() < 0.3:
                    s = s.replace("K", "K(TMTPro (K))")
                if rng.random() < 0.2:
                    s = s + rng.choice(["-[UNIMOD:737]", "-[+229.1629]"])       # ProForma C-terminal modification
            yield {"s": s}

    def impl(self, case):
        from picked_group_fdr import helpers
        return helpers.remove_modifications(case["s"])

    def render(self, case, out):
        return cpair(cstr(case["s"]), cstr(out))

    def nontrivial(self, case, out):
        return "((" in case["s"] or " (" in case["s"]


class PurgeSuite(Suite):
    name = "remove_decoy_proteins_from_target_peptides"
    imports = IngestSuite.imports
    case_type = "list str * list str"
    chk = "chk10d"
    deterministic = True
    rule = "protein lists mixing targets, REV__/rev_ decoys and identifiers carrying the marker inside; non-trivial = mixed list"

    def gen(self, rng, tier):
        for _ in range(core.tier_n(tier, 500, 6000)):
            yield {"ps": [rng.choice(["P1", "P2", "REV__P1", "rev_P2", "X_REV__Y", "CON__P3", "REV__", "REV_HV1H2", "Rev_erb", "rEV__x", "REV_"]) for _ in range(rng.randint(0, 5))]}

    def impl(self, case):
        from picked_group_fdr import helpers
        return helpers.remove_decoy_proteins_from_target_peptides(list(case["ps"]))

    def render(self, case, out):
        return cpair(clist(cstr(p) for p in case["ps"]), clist(cstr(p) for p in out))

    def nontrivial(self, case, out):
        return 0 < len(out) < len(case["ps"])


SUITES = [IngestSuite(), StripSuite(), PurgeSuite()]


def suite_by_name(name):
    return next(s for s in SUITES if s.name == name)


def run(r: core.Runner):
    r.assumptions += [
        "csv splitting is the runtime's (cells obtained with Python's csv.reader; DIA-NN numbers with pandas.read_csv)",
        "float(cell), 1 - p + 1e-16 (FragPipe) and 10^x (Sage) are tabulated oracles filled with the same primitives",
        "parquet input and ms2rescore's eval() of the protein list are not modelled",
    ]
    for s in SUITES:
        r.run_suite(s, max_report=2)
    # the property monitor also runs on every generated ingestion case
    s = SUITES[0]
    n = 0
    for c in s.gen(r.rng, "quick"):
        n += 1
        if n > 150:
            break
        out = s.impl(c)
        v = s.py_property(c, out)
        if v:
            r.violation("property-failure", {"suite": s.name, "case": c, "impl_output": out, "signature": v}, True, f"{s.name}: {v}")
            break
    r.traces = n
