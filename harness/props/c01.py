"""C01 — q-values: calculate_protein_fdrs and row alignment vs Model/Fdr.v, Model/Results.v."""
from .. import core
from .results_common import FdrSuite, RowsSuite

SUITES = [FdrSuite(), RowsSuite()]


def suite_by_name(name):
    return next(s for s in SUITES if s.name == name)


def run(r: core.Runner):
    r.assumptions += [
        "IEEE-754 division is correctly rounded and rounding is monotone: the float q-value (d+1)/(t+1) is "
        "matched to the unique fraction with denominator <= n+2 that rounds to it",
        "the entrapment branch (logging only) is not modelled",
    ]
    for s in SUITES:
        r.run_suite(s)
