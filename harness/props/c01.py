"""C01 — q-values: calculate_protein_fdrs and row alignment vs Model/Fdr.v, Model/Results.v."""
from .. import core
from .pipeline_common import PipelineSuite
from .results_common import FdrSuite, RowsSuite

SUITES = [FdrSuite(), RowsSuite()]


SUITES_EXTRA = []


def suite_by_name(name):
    return next(s for s in SUITES + [PipelineSuite()] if s.name == name)


def run(r: core.Runner):
    r.assumptions += [
        "IEEE-754 division is correctly rounded and rounding is monotone: the float q-value (d+1)/(t+1) is "
        "matched to the unique fraction with denominator <= n+2 that rounds to it",
        "the entrapment branch (logging only) is not modelled",
    ]
    for s in SUITES:
        r.run_suite(s)
    # the same guarantees through the whole inference function, for a cross-section of the shipped methods
    ps = PipelineSuite(methods=["picked_protein_group_mq_input", "classic_protein_group", "maxquant_mq_best_picked",
                                "savitski_mq_mult", "savitski", "razor_picked_mq_input"])
    SUITES_EXTRA.append(ps)
    r.run_suite(ps)
    if r.tier == "thorough":
        # once per thorough pass: the independent checker over the whole development
        chk = core.run_coqchk()
        r.extra["coqchk"] = chk
        if chk["problems"]:
            r.violation("proof", {"suite": "coqchk", "problems": chk["problems"]}, False, "coqchk: " + "; ".join(chk["problems"])[:300])
