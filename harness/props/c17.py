"""C17 — calc_post_err_prob_cutoff vs Model/Cutoff.v (float-exact grid)."""
import itertools

import numpy as np
import math
from fractions import Fraction

from .. import core
from ..core import Suite, cZ, cpos, clist, cpair, copt

GRID_BITS = 20      # PEPs are multiples of 2^-20
LEVEL_BITS = 10     # levels are multiples of 2^-10
D = 1 << GRID_BITS


def _f(tok):
    if tok == "nan":
        return float("nan")
    if tok == "inf":
        return float("inf")
    if tok == "-inf":
        return float("-inf")
    return float(Fraction(tok))


class CutoffSuite(Suite):
    name = "calc_post_err_prob_cutoff"
    imports = "From PGF Require Import Base.Prelude Model.Cutoff Harness.H17."
    case_type = "(positive * (Z * positive) * list (option Z)) * Z"
    chk = "chk17"
    runf = "run17"
    deterministic = True   # C17_first_crossing_determines_result
    rule = ("PEP multisets on the float-exact grid (multiples of 2^-20, <= 1024 items, levels multiples "
            "of 2^-10) with NaN/inf entries at random positions, duplicates, empty lists, all "
            "permutations of small multisets; non-trivial = >= 3 finite values, >= 1 non-finite entry "
            "and a crossing (cutoff < 1)")

    def gen(self, rng, tier):
        n_random = core.tier_n(tier, 1500, 40000)
        # all permutations of small multisets (including the D4 witness)
        smalls = [
            ["1/2", "nan", "1/1024", "1/512"],
            ["1/4", "1/4", "inf", "1/8"],
            ["1/1", "0/1", "nan", "1/2", "1/2"],
            ["3/4", "-inf", "1/16", "1/16", "nan"],
        ]
        levels = ["1/5", "1/100", "1/4", "1/2", "0/1", "1/1"]
        levels = [str(Fraction(round(Fraction(l) * 1024), 1024)) for l in levels]
        for ms in smalls:
            perms = sorted(set(itertools.permutations(ms)))
            if tier != "thorough":
                perms = perms[:: max(1, len(perms) // 30)]
            for p in perms:
                for lv in levels[:3] if tier != "thorough" else levels:
                    yield {"peps": list(p), "level": lv}
        yield {"peps": [], "level": "1/100"}
        yield {"peps": ["nan"], "level": "1/100"}
        # exact ties: some prefix of the sorted PEPs has a mean EQUAL to the level (the crossing must be strict)
        for _ in range(core.tier_n(tier, 200, 3000)):
            lv = Fraction(rng.randint(0, 1 << (LEVEL_BITS - 2)) * 2, 1 << LEVEL_BITS)
            k = rng.randint(1, 4)
            style = rng.random()
            if style < 0.35:
                peps = [lv] * k                                   # duplicates sitting on the level
            elif style < 0.7:
                d = Fraction(rng.randint(0, int(lv * D)), D) if lv > 0 else Fraction(0)
                peps = [lv - d, lv + d]                           # a symmetric pair
            else:
                peps = [Fraction(0)] * (k - 1) + [lv * k]         # zeros, then one PEP lifting the mean exactly to the level
            peps = [x for x in peps if 0 <= x <= 1]
            peps += [Fraction(rng.randint(int(max(peps + [lv]) * D), D), D) for _ in range(rng.randint(0, 3))]
            peps = [str(x) for x in peps] + (["nan"] if rng.random() < 0.2 else [])
            rng.shuffle(peps)
            if rng.random() < 0.5:
                # the level is the double NEXT TO that mean: a mean that exceeds the level by one unit in the last place crosses, a
                # mean one unit below does not (every other prefix mean is at least 2^-23 away, so only this prefix is affected)
                lv = Fraction(float(np.nextafter(float(lv), rng.choice([0.0, 1.0]))))
            yield {"peps": peps, "level": str(lv)}
        for _ in range(n_random):
            n = rng.choice([0, 1, 2, 3, 5, 8, 13, 30, 60]) if rng.random() < 0.9 else rng.randint(100, 600)
            style = rng.random()
            peps = []
            for _ in range(n):
                r = rng.random()
                if r < 0.12:
                    peps.append(rng.choice(["nan", "nan", "inf", "-inf"]))
                elif r < 0.25 and peps:
                    peps.append(rng.choice(peps))            # duplicate
                elif style < 0.5:
                    peps.append(str(Fraction(rng.randint(0, 1 << 12), D)))   # many tiny PEPs
                else:
                    peps.append(str(Fraction(rng.randint(0, D), D)))
            if rng.random() < 0.5:
                lv = Fraction(rng.randint(0, 1 << LEVEL_BITS), 1 << LEVEL_BITS)
            else:
                lv = Fraction(rng.choice([1, 2, 5, 10, 51, 102]), 1 << LEVEL_BITS)
            yield {"peps": peps, "level": str(lv)}

    def impl(self, case):
        from picked_group_fdr import fdr
        out = fdr.calc_post_err_prob_cutoff([_f(t) for t in case["peps"]], float(Fraction(case["level"])))
        fr = Fraction(float(out)) * D
        return str(fr)   # in units of 1/D; must be an integer for a correct implementation

    def _render_in(self, case):
        lv = Fraction(case["level"])
        items = []
        for t in case["peps"]:
            if t in ("nan", "inf", "-inf"):
                items.append(copt(None))
            else:
                v = Fraction(t) * D
                assert v.denominator == 1
                items.append(copt(cZ(v.numerator)))
        return cpair(cpos(D), cpair(cZ(lv.numerator), cpos(lv.denominator)), clist(items))

    def render_in(self, case):
        return self._render_in(case)

    def render(self, case, out):
        fr = Fraction(out)
        # a non-integer result cannot be any input value nor 1.0: send an impossible value
        o = fr.numerator if fr.denominator == 1 else -1
        return cpair(self._render_in(case), cZ(o))

    def nontrivial(self, case, out):
        fin = [t for t in case["peps"] if t not in ("nan", "inf", "-inf")]
        return len(fin) >= 3 and len(fin) < len(case["peps"]) and Fraction(out) < D

    def describe(self, case, out):
        n = len(case["peps"])
        nf = sum(1 for t in case["peps"] if t in ("nan", "inf", "-inf"))
        return {"size": "0" if n == 0 else "1-5" if n <= 5 else "6-30" if n <= 30 else "31+",
                "nonfinite": min(nf, 3), "crossing": Fraction(out) < D}

    def signature(self, case, out):
        peps = case["peps"]
        if any(t in ("nan", "inf", "-inf") for t in peps):
            return "cutoff-with-nonfinite-entries"
        return "cutoff-finite-only"

    def shrink(self, case):
        peps = case["peps"]
        for i in range(len(peps)):
            yield {"peps": peps[:i] + peps[i + 1:], "level": case["level"]}


SUITES = [CutoffSuite()]


def suite_by_name(name):
    return next(s for s in SUITES if s.name == name)


def call_sites(r, n_cases):
    """the two call sites named by the property (writers/base.py: the identified-precursor filter; scoring_strategy.py: peptide
    counting) hand the function their PEPs in their own way (rows of the evidence in file order, with match-between-runs NaNs): the
    cutoff each of them ends up with must be the function's value on the plain list of those PEPs, in any order"""
    import random
    from picked_group_fdr import fdr, columns
    from picked_group_fdr.results import ProteinGroupResults
    from picked_group_fdr.protein_groups import ProteinGroups
    from picked_group_fdr.scoring_strategy import ProteinScoringStrategy
    from picked_group_fdr.writers.base import ProteinGroupsWriter
    rng = r.rng
    grid = [0.0, 2.0 ** -10, 2.0 ** -9, 0.01, 0.02, 0.05, 0.125, 0.25, 0.5, 0.75, 1.0]
    n = 0
    for _ in range(n_cases):
        peps = [rng.choice(grid) for _ in range(rng.randint(0, 9))]
        peps += [float("nan")] * rng.choice([0, 0, 1, 2])
        rng.shuffle(peps)
        level = rng.choice([0.005, 0.01, 0.05, 0.2, 0.5])
        finite = sorted(p for p in peps if p == p)
        want = fdr.calc_post_err_prob_cutoff(list(finite), level)
        n += 1
        # (a) the writer
        got = {}

        class Col(columns.ProteinGroupColumns):
            def append_headers(self, *a, **k):
                pass

            def append_columns(self, *a, **k):
                pass

            def append(self, pgr, cutoff):
                got["writer"] = cutoff

        class W(ProteinGroupsWriter):
            def get_columns(self):
                return [Col()]
        rows = [(p, "raw1", "E1", f"PEPTIDE{i}K") for i, p in enumerate(peps)]
        try:
            W().append_quant_columns(ProteinGroupResults(), rows, level)
        except Exception as e:
            got["writer"] = f"{type(e).__name__}: {e}"[:120]
        # (b) peptide counting: every peptide belongs to one protein, each protein is its own group
        pil = {f"PEPTIDE{i}K": (p, [f"P{i}"]) for i, p in enumerate(peps)}
        st = ProteinScoringStrategy("bestPEP")
        try:
            st.collect_peptide_scores_per_protein(ProteinGroups.init_from_list([[f"P{i}"] for i in range(len(peps))]), pil, level)
            got["scoring"] = st.peptide_score_cutoff
        except Exception as e:
            got["scoring"] = f"{type(e).__name__}: {e}"[:120]
        for site in ("writer", "scoring"):
            if got.get(site) != want:
                r.violation("property-failure", {"suite": "call_sites", "site": site, "peps_in_row_order": [repr(p) for p in peps],
                                                 "level": level, "cutoff_at_the_call_site": repr(got.get(site)),
                                                 "cutoff_of_the_list": repr(want)}, True,
                            f"call_sites: the {site} call site ends up with cutoff {got.get(site)!r} for PEPs {peps} at level {level}; "
                            f"the function on the list gives {want!r}")
                return n
    return n


def long_lists(r, n_cases):
    """lists far beyond what the in-Coq evaluation takes (70 000 - 200 000 PEPs; evidence files have millions of rows): monitor only.
    Values are multiples of 2^-10 and the crossing is placed by construction (a long run of one small value, then larger ones), so the
    float sums are exact and the statement is evaluated in integer arithmetic."""
    from picked_group_fdr import fdr
    n = 0
    for k in range(n_cases):
        small = r.rng.choice([0, 1, 2])                       # in units of 2^-10
        n_small = r.rng.randrange(66000, 140000)
        big_units = [r.rng.choice([64, 128, 512, 1024]) for _ in range(r.rng.randrange(50, 60000))]
        level_units = r.rng.choice([4, 16, 64, 256, 1100])     # 1100/1024 > 1: never crossed
        units = [small] * n_small + big_units
        peps = [u / 1024.0 for u in units]
        if k % 2:
            r.rng.shuffle(peps)
        if k % 3 == 0:
            peps[len(peps) // 2:len(peps) // 2] = [float("nan"), float("inf")]
        tot, want = 0, 1.0
        for i, u in enumerate(sorted(units), 1):
            tot += u
            if tot > level_units * i:
                want = u / 1024.0
                break
        n += 1
        try:
            got = float(fdr.calc_post_err_prob_cutoff(peps, level_units / 1024.0))
        except Exception as e:
            got = f"raised {type(e).__name__}"
        if got != want:
            r.violation("property-failure", {"suite": "long_lists", "n_small": n_small, "small_value": small / 1024.0, "n_larger": len(big_units),
                                             "level": level_units / 1024.0, "expected": want, "got": got, "shuffled": bool(k % 2),
                                             "how_to_rebuild": "peps = [small_value] * n_small + larger values (seeded); see harness/props/c17.py long_lists"},
                        True, f"long_lists: {len(units)} PEPs, level {level_units / 1024.0}: cutoff {got}, the first PEP whose running mean exceeds the level is {want}")
            return n
    return n


def odd_levels(r, n_cases):
    """levels the model's rationals do not cover - nan (argparse's float accepts it), inf, -inf: nothing exceeds nan or inf (cutoff
    1.0), every mean exceeds -inf (cutoff = the smallest finite PEP); monitor only"""
    from picked_group_fdr import fdr
    n = 0
    for _ in range(n_cases):
        rng = r.rng
        peps = [rng.choice([0.0, 0.001, 0.02, 0.3, 0.9, 1.0, float("nan"), float("inf")]) for _ in range(rng.randint(0, 8))]
        fin = sorted(p for p in peps if p == p and abs(p) != float("inf"))
        for level, want in ((float("nan"), 1.0), (float("inf"), 1.0), (float("-inf"), fin[0] if fin else 1.0)):
            n += 1
            try:
                got = float(fdr.calc_post_err_prob_cutoff(list(peps), level))
            except Exception as e:
                got = f"raised {type(e).__name__}"
            if got != want:
                r.violation("property-failure", {"suite": "odd_levels", "peps": [repr(p) for p in peps], "level": repr(level), "expected": want,
                                                 "got": got}, True,
                            f"odd_levels: level {level!r} on {len(peps)} PEPs: cutoff {got}, the first PEP whose running mean exceeds the level is {want}")
                return n
    return n


def run(r: core.Runner):
    r.assumptions += [
        "float arithmetic of the running mean is exact on the generated grid (multiples of 2^-20, <= 1024 "
        "items, levels multiples of 2^-10): sums need <= 31 bits, and sum/n differs from a level by >= 2^-30 "
        "or not at all, so the rounded comparison equals the rational one; off-grid rounding is modelled, not verified",
        "np.isfinite classifies NaN/+inf/-inf as non-finite (modelled as None)",
    ]
    for s in SUITES:
        r.run_suite(s)
    r.traces = (r.traces or 0) + call_sites(r, core.tier_n(r.tier, 300, 5000))
    r.traces += long_lists(r, core.tier_n(r.tier, 6, 40)) + odd_levels(r, core.tier_n(r.tier, 40, 400))
