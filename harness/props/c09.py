"""C09 — FASTA reading, decoy construction, peptide-to-protein map, hashed lookup, iBAQ numbers, map file."""
import os
import tempfile

from .. import core, gens
from ..core import Suite, cN, cnat, cstr, clist, cpair, cbool

AAS = "ACDEFGHIKLMNPQRSTVWY"
DBS = {"target": 0, "decoy": 1, "concat": 2}
MODES = {"full": 2, "semi": 1, "none": 0}


def rl(chars):
    return clist(cN(ord(c)) for c in chars)


def gen_fasta_text(rng, n=None, ids=None):
    n = n or rng.randint(1, 5)
    out = []
    recs = []
    if rng.random() < 0.1:
        # text before the first header (comment / banner line, stray residues): it belongs to no record
        out += [rng.choice(["; exported 2024-05-01\n", "# release 2024_02\n", "ACDEFGHIKR\n"]) for _ in range(rng.choice([1, 2]))]
    for i in range(n):
        pid = (ids[i] if ids else rng.choice([f"sp|P{i:03d}|NAME{i}_HUMAN", f"P{i}", f"tr|Q{i}|X{i}"]))
        desc = rng.choice(["", " some description OS=Homo sapiens GN=G%d PE=1 SV=1" % i, " x"])
        ln = rng.choice([1, 3, 8, 15, 30])
        seq = "".join(rng.choice(AAS if rng.random() < 0.7 else "AKRPM") for _ in range(ln))
        if rng.random() < 0.4:
            seq = "M" + seq[1:]
        recs.append((pid, seq))
        nl = rng.choice(["\n", "\n", "\r\n"])
        out.append(">" + pid + desc + rng.choice(["", " ", "\t"]) + nl)
        w = rng.choice([3, 7, 60])
        for j in range(0, len(seq), w):
            out.append(seq[j:j + w] + rng.choice(["", "", " "]) + nl)
        if rng.random() < 0.2:
            out.append(nl)
    text = "".join(out)
    if rng.random() < 0.2 and text.endswith("\n"):
        text = text[:-1]
    return text, recs


def file_lines(text):
    """lines as Python's universal-newline text mode delivers them (the runtime, not the code under test)"""
    d = core.scratch()
    p = os.path.join(d, "lines.tmp")
    with open(p, "w", newline="") as f:
        f.write(text)
    with open(p, "r") as f:
        return [l for l in f]


def write_text(text, name):
    p = os.path.join(core.scratch(), name)
    with open(p, "w", newline="") as f:
        f.write(text)
    return p


class ReadFastaSuite(Suite):
    name = "read_fasta_maxquant"
    imports = "From PGF Require Import Base.Prelude Model.Digest Model.Fasta Harness.H09."
    case_type = "(nat * list N * list str) * list (str * str)"
    chk = "chk09r"
    runf = "run09r"
    deterministic = True
    rule = ("1-5 records with random wrapping (3/7/60), LF and CRLF, blank lines, trailing blanks, descriptions, missing final "
            "newline; target / decoy / concat; special residues KR, none, other; non-trivial = a wrapped record and a "
            "special residue directly after another one in the reversed sequence")

    def gen(self, rng, tier):
        for _ in range(core.tier_n(tier, 400, 8000)):
            text, _ = gen_fasta_text(rng)
            yield {"text": text, "db": rng.choice(list(DBS)), "special": rng.choice(["KR", "KR", "", "K", "MP"])}

    def impl(self, case):
        from picked_group_fdr import digest
        p = write_text(case["text"], "in.fasta")
        return [[a, b] for a, b in digest.read_fasta_maxquant(p, db=case["db"], special_aas=list(case["special"]))]

    def render_in(self, case):
        return cpair(cnat(DBS[case["db"]]), rl(case["special"]), clist(cstr(l) for l in file_lines(case["text"])))

    def render(self, case, out):
        return cpair(self.render_in(case), clist(cpair(cstr(a), cstr(b)) for a, b in out))

    def nontrivial(self, case, out):
        return case["db"] != "target" and case["text"].count("\n") > case["text"].count(">") + 1

    def describe(self, case, out):
        return {"db": case["db"], "special": case["special"] or "none", "records": min(len(out), 8)}

    def shrink(self, case):
        lines = case["text"].split("\n")
        for i in range(len(lines)):
            c = dict(case)
            c["text"] = "\n".join(lines[:i] + lines[i + 1:])
            yield c


def mk_params(p):
    from picked_group_fdr.digestion_params import DigestionParams
    return DigestionParams(enzyme=p["enzyme"], digestion=p["digestion"], min_length=p["min"], max_length=p["max"],
                           cleavages=p["mc"], special_aas=p["special"] or "none", fasta_contains_decoys=p["contains_decoys"])


def render_params(p, ibaq=False):
    from picked_group_fdr import digest
    e = digest.ENZYME_CLEAVAGE_RULES[p["enzyme"]]
    mode = "none" if p["enzyme"] == "no_enzyme" else p["digestion"]
    mn, mx, mc, met = p["min"], p["max"], p["mc"], True
    if ibaq:
        mn, mx, mc, met = max(6, mn), min(30, mx), 0, False
    return cpair(cpair(rl(e["pre"]), rl(e["not_post"]), rl(e["post"])), cnat(MODES[mode]), cnat(mn), cnat(mx), cnat(mc), cbool(met))


def gen_params(rng, shared_special, contains_decoys):
    return {"enzyme": rng.choice(["trypsin", "trypsin", "lys-c", "chymotrypsin", "asp-n", "glu-c", "trypsinp"]),
            "digestion": rng.choice(["full", "full", "semi"]), "min": rng.choice([1, 2, 5, 7]),
            "max": rng.choice([8, 12, 30, 60]), "mc": rng.choice([0, 1, 2]), "special": shared_special,
            "contains_decoys": contains_decoys}


class MapSuite(Suite):
    name = "get_peptide_to_protein_map_from_params"
    imports = ReadFastaSuite.imports
    case_type = "c09_in * pp_map"
    chk = "chk09m"
    runf = "run09m"
    deterministic = True
    rule = ("1-2 FASTA files x 1-3 digestion parameter sets (several proteases, full and semi), target-only and target+decoy, "
            "special residues KR/none; the ordered dict is compared key by key in insertion order; non-trivial = a peptide "
            "mapping to two proteins and more than one parameter set or file")

    def gen(self, rng, tier):
        for _ in range(core.tier_n(tier, 250, 5000)):
            nf = rng.choice([1, 1, 2])
            texts = []
            for f in range(nf):
                ids = [f"F{f}P{i}" for i in range(5)]
                t, _ = gen_fasta_text(rng, n=rng.randint(1, 3), ids=ids)
                texts.append(t)
            if rng.random() < 0.5:
                # plant a shared tryptic block so that peptides map to several proteins
                texts[0] += ">SHARED1\nAAAAAAKCCCCCCKDDDDDDR\n>SHARED2\nAAAAAAKEEEEEEK\n"
            special = rng.choice(["KR", "KR", ""])
            cd = rng.random() < 0.3
            yield {"texts": texts, "params": [gen_params(rng, special, cd) for _ in range(rng.choice([1, 1, 2, 3]))]}

    def impl(self, case):
        from picked_group_fdr import digest
        files = [write_text(t, f"db{i}.fasta") for i, t in enumerate(case["texts"])]
        try:
            m = digest.get_peptide_to_protein_map_from_params(files, [mk_params(p) for p in case["params"]])
        except Exception as e:
            return {"raise": gens.exn_name(e), "msg": str(e)[:100]}
        return {"ok": [[k, list(v)] for k, v in m.items()]}

    def render_in(self, case):
        p0 = case["params"][0]
        db = 0 if p0["contains_decoys"] else 2
        return cpair(cnat(db), rl(p0["special"]), clist(clist(cstr(l) for l in file_lines(t)) for t in case["texts"]),
                     clist(render_params(p) for p in case["params"]))

    def render(self, case, out):
        items = out.get("ok", [["<raised %s>" % out.get("raise"), []]])
        return cpair(self.render_in(case), clist(cpair(cstr(k), clist(cstr(p) for p in v)) for k, v in items))

    def nontrivial(self, case, out):
        return "ok" in out and any(len(v) > 1 for _, v in out["ok"]) and (len(case["params"]) > 1 or len(case["texts"]) > 1)

    def describe(self, case, out):
        return {"files": len(case["texts"]), "param_sets": len(case["params"]), "outcome": out.get("raise", "ok"),
                "keys": "0-2" if len(out.get("ok", [])) <= 2 else "3+"}

    def signature(self, case, out):
        if "raise" in out:
            return "map-from-params-crashes"
        if len(case["params"]) > 1 or len(case["texts"]) > 1:
            return "map-with-several-parameter-sets"
        return "map-single"

    def shrink(self, case):
        if len(case["params"]) > 1:
            for i in range(len(case["params"])):
                c = dict(case)
                c["params"] = case["params"][:i] + case["params"][i + 1:]
                yield c
        if len(case["texts"]) > 1:
            c = dict(case)
            c["texts"] = case["texts"][:1]
            yield c


class IbaqSuite(MapSuite):
    name = "get_num_ibaq_peptides_per_protein"
    case_type = "(c09_in * list str) * list nat"
    chk = "chk09i"
    runf = "run09i"
    rule = ("as the map suite, restricted to fully specific digestion; the theoretical peptide number of every protein "
            "(window [max(6,min), min(30,max)], no missed cleavage, no methionine removal) is compared; non-trivial = "
            "several parameter sets and a protein with >= 2 peptides")

    def gen(self, rng, tier):
        for c in MapSuite.gen(self, rng, "quick" if tier != "thorough" else "thorough"):
            for p in c["params"]:
                p["digestion"] = "full"
                p["min"] = min(p["min"], 7)
            yield c

    def impl(self, case):
        from picked_group_fdr import digest
        files = [write_text(t, f"db{i}.fasta") for i, t in enumerate(case["texts"])]
        try:
            d = digest.get_num_ibaq_peptides_per_protein(files, [mk_params(p) for p in case["params"]])
        except Exception as e:
            return {"raise": gens.exn_name(e), "msg": str(e)[:100]}
        # the proteins asked about are those of the result AND every record identifier of every file (and its decoy): a protein the
        # tool forgot must show up as a number that differs from the model's
        ids = {ln[1:].split(" ")[0] for t in case["texts"] for ln in t.splitlines() if ln.startswith(">") and len(ln) > 1 and ln[1] != " "}
        prots = sorted(set(d) | ids | {"REV__" + i for i in ids})
        return {"prots": prots, "ok": [int(d.get(p, 0)) for p in prots]}

    def render_in(self, case):
        return None

    def render(self, case, out):
        p0 = case["params"][0]
        db = 0 if p0["contains_decoys"] else 2
        cin = cpair(cnat(db), rl(p0["special"]), clist(clist(cstr(l) for l in file_lines(t)) for t in case["texts"]),
                    clist(render_params(p, ibaq=True) for p in case["params"]))
        if "raise" in out:
            return cpair(cpair(cin, clist([cstr("<raised>")])), clist([cnat(0)]))
        return cpair(cpair(cin, clist(cstr(p) for p in out["prots"])), clist(cnat(n) for n in out["ok"]))

    def nontrivial(self, case, out):
        return "ok" in out and len(case["params"]) > 1 and any(n >= 2 for n in out["ok"])

    def signature(self, case, out):
        if "raise" in out:
            return "map-from-params-crashes"
        return "ibaq-number-with-several-parameter-sets" if len(case["params"]) > 1 else "ibaq-number"

    runf = None


class HashedSuite(Suite):
    name = "get_proteins_nonspecific"
    imports = ReadFastaSuite.imports
    case_type = "(nat * list N * list str * nat * nat * str) * list str"
    chk = "chk09h"
    runf = "run09h"
    deterministic = True
    rule = ("non-specific digestion (no_enzyme) of 1-5 records; lookups of substrings that occur in one / several / no "
            "protein, inside and outside the length window, windows starting below / at / above the length of the hash key (6); non-trivial = the peptide occurs in >= 2 proteins")

    def gen(self, rng, tier):
        for _ in range(core.tier_n(tier, 250, 5000)):
            text, recs = gen_fasta_text(rng, n=rng.randint(1, 4), ids=[f"P{i}" for i in range(5)])
            text += ">TWIN1\nGGGGAAAACCCCDDDD\n>TWIN2\nTTTAAAACCCCDDDDEE\n"
            # windows on both sides of the length of the hash key (6): shorter peptides are their own key
            mn, mx = rng.choice([(6, 10), (7, 12), (8, 8), (3, 8), (5, 12), (4, 6), (1, 4)])
            seqs = [s for _, s in recs] + ["GGGGAAAACCCCDDDD", "TTTAAAACCCCDDDDEE"]
            s = rng.choice(seqs)
            ln = rng.choice([mn, mx, mn - 1, mx + 1, (mn + mx) // 2])
            a = rng.randrange(max(1, len(s)))
            pep = s[a:a + ln] if rng.random() < 0.8 else "".join(rng.choice("ACD") for _ in range(ln))
            if not pep:
                pep = "AAAACCCC"
            yield {"text": text, "min": mn, "max": mx, "pep": pep, "db": rng.choice(["target", "concat"])}

    def impl(self, case):
        from picked_group_fdr import digest
        from picked_group_fdr.digestion_params import DigestionParams
        f = write_text(case["text"], "ns.fasta")
        dp = DigestionParams(enzyme="no_enzyme", min_length=case["min"], max_length=case["max"],
                             fasta_contains_decoys=(case["db"] == "target"))
        try:
            m = digest.get_peptide_to_protein_map_from_params([f], [dp])
            return list(digest.get_proteins(m, case["pep"]))
        except Exception as e:
            return ["<raised %s>" % gens.exn_name(e)]

    def render_in(self, case):
        return cpair(cnat(0 if case["db"] == "target" else 2), rl("KR"), clist(cstr(l) for l in file_lines(case["text"])),
                     cnat(case["min"]), cnat(case["max"]), cstr(case["pep"]))

    def render(self, case, out):
        return cpair(self.render_in(case), clist(cstr(p) for p in out))

    def nontrivial(self, case, out):
        return len(out) >= 2

    def describe(self, case, out):
        return {"hits": min(len(out), 4), "len_vs_window": "in" if case["min"] <= len(case["pep"]) <= case["max"] else "out"}


class MapFileSuite(Suite):
    name = "peptide_protein_map_file"
    imports = ReadFastaSuite.imports
    case_type = "pp_map * pp_map"
    chk = "chk09f"
    deterministic = True
    rule = ("maps with 1-6 peptides and 1-4 proteins each (identifiers without ';'), written with the tool's tsv writer as "
            "digest.main does and read back with get_peptide_to_protein_map_from_file; non-trivial = >= 2 proteins for a peptide")

    def gen(self, rng, tier):
        for _ in range(core.tier_n(tier, 200, 4000)):
            m = []
            for e in rng.sample(gens.PEPTIDES, rng.randint(1, 6)):
                m.append([e, [rng.choice(["P1", "sp|Q1|A_B", "REV__P1", "CON__X", "P 2"]) + str(rng.randint(0, 3))
                              for _ in range(rng.randint(1, 4))]])
            yield {"map": m}

    def impl(self, case):
        from picked_group_fdr import digest
        p = os.path.join(core.scratch(), "map.tsv")
        with digest.get_tsv_writer(p, delimiter="\t") as w:
            for pep, prots in case["map"]:
                w.writerow([pep, ";".join(prots)])
        m = digest.get_peptide_to_protein_map_from_file(p, use_hash_key=False)
        return [[k, list(v)] for k, v in m.items()]

    def render(self, case, out):
        r = lambda m: clist(cpair(cstr(k), clist(cstr(p) for p in v)) for k, v in m)
        return cpair(r(case["map"]), r(out))

    def nontrivial(self, case, out):
        return any(len(v) >= 2 for _, v in case["map"])


SUITES = [ReadFastaSuite(), MapSuite(), IbaqSuite(), HashedSuite(), MapFileSuite()]


def suite_by_name(name):
    return next(s for s in SUITES if s.name == name)


def main_differential(r, n_cases):
    """The digest module's own command line (python -m picked_group_fdr.digest: peptide map, iBAQ table and Prosit input in ONE call,
    any subset of the three) against the library functions the models are tied to, called one by one on freshly built parameter
    objects: every written file must be what the function alone gives for the options on the command line."""
    import csv
    import sys
    import tempfile
    from picked_group_fdr import digest
    from picked_group_fdr import digestion_params as dp
    n = 0
    for k in range(n_cases):
        rng = r.rng
        d = tempfile.mkdtemp(prefix="c09main_", dir=core.scratch())
        text, _ = gen_fasta_text(rng, n=rng.randint(2, 5), ids=[f"sp|P{i:03d}|NAME{i}_HUMAN" for i in range(5)])
        fa = os.path.join(d, "db.fasta")
        with open(fa, "w", newline="") as fh:
            fh.write(text)
        nsets = rng.choice([1, 1, 2])
        opts = {"--enzyme": [rng.choice(["trypsin", "lys-c", "chymotrypsin", "asp-n", "trypsinp"]) for _ in range(nsets)],
                "--cleavages": [str(rng.choice([0, 1, 2])) for _ in range(nsets)],
                "--min-length": [str(rng.choice([1, 3, 5, 7]))] * nsets,
                "--max-length": [str(rng.choice([8, 20, 35, 60]))] * nsets,
                "--digestion": [rng.choice(["full", "full", "semi"]) for _ in range(nsets)]}
        argv = ["digest", "--fasta", fa]
        for o, v in opts.items():
            argv += [o] + v
        wanted = [w for w in ("map", "ibaq", "prosit") if rng.random() < 0.7] or ["map", "ibaq"]
        if k % 3 == 0:
            wanted = ["map", "ibaq"] + (["prosit"] if rng.random() < 0.5 else [])
        paths = {"map": os.path.join(d, "map.tsv"), "ibaq": os.path.join(d, "ibaq.tsv"), "prosit": os.path.join(d, "prosit.csv")}
        flags = {"map": "--peptide_protein_map", "ibaq": "--ibaq_map", "prosit": "--prosit_input"}
        for w in wanted:
            argv += [flags[w], paths[w]]

        def fresh():
            old = sys.argv
            sys.argv = argv
            try:
                return dp.get_digestion_params_list(digest.parse_args())
            finally:
                sys.argv = old
        n += 1
        problem = None
        try:
            old = sys.argv
            sys.argv = argv
            try:
                digest.main(argv[1:])
            finally:
                sys.argv = old

            def cells(path, delim):
                with open(path, newline="") as fh:
                    return [row for row in csv.reader(fh, delimiter=delim)]
            if "map" in wanted:
                want = [[pep, ";".join(ps)] for pep, ps in digest.get_peptide_to_protein_map_from_params([fa], fresh()).items()]
                if cells(paths["map"], "\t") != want:
                    got = cells(paths["map"], "\t")
                    problem = (f"--peptide_protein_map: {len(got)} rows written, the map function alone gives {len(want)}; first difference: "
                               f"{next((a for a in want if a not in got), None) or next((a for a in got if a not in want), None)}")
            if problem is None and "ibaq" in wanted:
                want = [[p_, str(c)] for p_, c in digest.get_num_ibaq_peptides_per_protein([fa], fresh()).items()]
                if cells(paths["ibaq"], "\t") != want:
                    problem = "--ibaq_map: the written table differs from get_num_ibaq_peptides_per_protein on fresh parameters"
            if problem is None and "prosit" in wanted:
                want = [["modified_sequence", "collision_energy", "precursor_charge"]]
                for pep in digest.get_peptide_to_protein_map_from_params([fa], fresh()):
                    if digest.is_valid_prosit_peptide(pep):
                        want += [[pep, "30", str(c)] for c in (2, 3, 4)]
                if cells(paths["prosit"], ",") != want:
                    problem = "--prosit_input: the written peptides differ from the map function's keys on fresh parameters"
        except Exception as e:
            problem = f"raised {type(e).__name__}: {e}"[:200]
        if problem:
            r.violation("property-failure", {"suite": "main_differential", "argv": argv, "fasta_text": text, "outputs_requested": wanted,
                                             "problem": problem}, True, f"digest command line ({' + '.join(wanted)}): {problem}"[:400])
            return n
    return n


def arg_round_trip(r, n_cases):
    """1-4 digestion parameter sets (values repeated at different positions, all equal, all distinct) turned into a command line by
    digestion_params_list_to_arg_list (the pipeline and the GUI hand the sets to the next tool that way) and parsed back: the same sets,
    in the same order."""
    import argparse
    from picked_group_fdr import digestion_params as dp
    n = 0
    for _ in range(n_cases):
        rng = r.rng
        k = rng.choice([1, 2, 3, 3, 4])
        sets = [(rng.choice(["trypsin", "lys-c", "trypsin", "asp-n"]), rng.choice(["full", "full", "semi", "none"]), rng.choice([6, 7, 7]),
                 rng.choice([30, 30, 60]), rng.choice([0, 2, 2]), rng.choice(["none", "KR", "KR"])) for _ in range(k)]
        if rng.random() < 0.2:
            sets = [sets[0]] * k
        n += 1
        try:
            lst = [dp.DigestionParams(e, d, mn, mx, c, sp, False) for e, d, mn, mx, c, sp in sets]
            argv = dp.digestion_params_list_to_arg_list(lst)
            ap = argparse.ArgumentParser()
            dp.add_digestion_arguments(ap)
            back = dp.get_digestion_params_list(ap.parse_args(argv))
            key = lambda p: (p.enzyme, p.digestion, p.min_length, p.max_length, p.cleavages, "".join(p.special_aas), p.methionine_cleavage)
            problem = None if [key(p) for p in back] == [key(p) for p in lst] else \
                f"{len(lst)} sets written as '{' '.join(argv)}' come back as {[key(p)[:5] for p in back]}"
        except Exception as e:
            problem = f"raised {type(e).__name__}: {e}"[:200]
        if problem:
            r.violation("property-failure", {"suite": "arg_round_trip", "parameter_sets": sets, "problem": problem}, True,
                        f"digestion parameter sets through the command line: {problem}"[:400])
            return n
    return n


def run(r: core.Runner):
    r.traces = (r.traces or 0) + main_differential(r, core.tier_n(r.tier, 40, 600)) + arg_round_trip(r, core.tier_n(r.tier, 200, 3000))
    r.assumptions += [
        "FASTA identifiers are distinct, headers are non-empty, identifiers contain no ';' (the tool's list separator)",
        "text decoding / universal newlines and the csv module are the runtime's; lines are obtained with Python's own open()",
        "iBAQ numbers are defined for fully specific digestion",
    ]
    for s in SUITES:
        r.run_suite(s, max_report=2)
