"""do_competition suite shared by C02 and C14: real code with recorded shuffles vs Model/Competition.v."""
from fractions import Fraction

import numpy as np

from .. import core, gens
from ..core import Suite, cQ, cstr, clist, cpair, cnat, cok, craise
from .results_common import render_group, render_pinfo

STRATS = {"picked": "Picked", "picked_group": "PickedGroup", "classic": "Classic"}


class _Scorer:
    """stand-in for ProteinScoringStrategy: returns the score assigned to each evidence list"""

    def __init__(self, table):
        self.table = table

    def calculate_score(self, infos):
        return self.table[id(infos)]


def run_competition(strategy, groups, infos, scores, seed, prior=None):
    """Run the real do_competition, recording the permutation each np.random.shuffle applies. [prior] = (infos, scores) of an earlier
    call on the SAME strategy object and the same groups (the two passes of a rescue method re-use the object): nothing but the
    cleared seen-set may survive it."""
    from picked_group_fdr import competition
    from picked_group_fdr.protein_groups import ProteinGroups
    perms = []
    real = np.random.shuffle

    def rec(x):
        idx = list(range(len(x)))
        real(idx)
        perms.append(idx)
        x[:] = [x[i] for i in idx]

    strat = competition.ProteinCompetitionStrategyFactory(strategy)
    if prior:
        p_infos = [[(float(Fraction(p)), e, list(pr)) for p, e, pr in inf] for inf in prior[0]]
        p_table = {id(i): float(Fraction(sc)) for i, sc in zip(p_infos, prior[1])}
        np.random.seed(seed)
        try:
            strat.do_competition(ProteinGroups([list(g) for g in groups]), p_infos, _Scorer(p_table))
        except Exception:
            pass
    infos_l = [[(float(Fraction(p)), e, list(pr)) for p, e, pr in inf] for inf in infos]
    table = {id(i): float(Fraction(s)) for i, s in zip(infos_l, scores)}
    np.random.seed(seed)
    np.random.shuffle = rec
    try:
        try:
            pg, pi, ps = strat.do_competition(ProteinGroups([list(g) for g in groups]), infos_l, _Scorer(table))
            out = {"ok": [[list(g), [[gens.fr(i[0]), i[1], list(i[2])] for i in inf], gens.fr(s)]
                          for g, inf, s in zip(pg, pi, ps)]}
        except Exception as e:
            out = {"raise": gens.exn_name(e)}
    finally:
        np.random.shuffle = real
    out["perms"] = perms
    out["n_shuffles"] = len(perms)
    seen = getattr(strat, "seen_proteins", set())
    out["seen_after"] = sorted(seen)
    return out


def gen_infos(rng, g):
    inf = []
    for e in rng.sample(gens.PEPTIDES, rng.choice([0, 1, 1, 2, 3, 4])):
        prots = rng.sample(g, rng.randint(1, len(g)))
        if rng.random() < 0.1:
            prots = prots + [prots[0]]
        if rng.random() < 0.12:
            # evidence that also names a protein OUTSIDE the group (score types that keep shared peptides): it may even have more
            # peptides than every member
            prots = prots + [rng.choice(["X9", "X9", "REV__X9", "Y8"])]
        inf.append([gens.grid_pep(rng, small=True), e, prots])
    return inf


def gen_case(rng, big=False):
    nb = rng.choice([2, 3, 4, 6])
    ng = rng.randint(1, 12 if not big else 30)
    groups, infos, scores = [], [], []
    # a fifth of the inputs have nearly-equal scores (distinct doubles a few 2^-30 apart): the ranking is by the exact score
    near = rng.random() < 0.2
    # one input in six uses the scores of the other regimes: negative sums (multiplied PEPs), 0, and -100.0 - the value every score
    # returns for an EMPTY evidence list, which a group WITH evidence reaches too (multPEP with a match-between-runs peptide, an
    # Andromeda score of -100)
    odd = rng.random() < 0.17
    for _ in range(ng):
        k = rng.choice([1, 1, 2, 3])
        g = []
        while len(g) < k:
            p = gens.protein_id(rng, nb, 0.45, markers_inside=False)
            if p not in g:
                g.append(p)
        plain = g
        if rng.random() < 0.15:
            g = ["OBSOLETE__" + p for p in g]
        groups.append(g)
        # (the rescue step renames the members of a placeholder group and leaves its evidence alone: half of the placeholder groups
        # carry evidence under the unprefixed names)
        infos.append(gen_infos(rng, plain if rng.random() < 0.5 else g))
        scores.append(gens.fr(rng.choice([1.0, 2.0, 2.0, 3.5, 7.25]) + (rng.choice([0, 1, 2, 3]) * 2.0 ** -30 if near else 0.0)))
        if odd:
            scores[-1] = gens.fr(rng.choice([-100.0, -100.0, -3.5, 0.0, -150.25, 2.0]))
    case = {"strategy": rng.choice(list(STRATS)), "groups": groups, "infos": infos, "scores": scores,
            "seed": rng.randint(0, 2 ** 31 - 1)}
    if rng.random() < 0.25:
        # an earlier call on the same strategy object with the same groups and other evidence (first pass / rescue pass)
        case["prior"] = [[gen_infos(rng, g) for g in groups], [gens.fr(rng.choice([1.0, 2.0, 3.5, 7.25])) for _ in groups]]
    return case


class CompetitionSuite(Suite):
    has_py_property = True

    def py_property(self, case, out):
        return property_violation(case, out)

    name = "do_competition"
    imports = "From PGF Require Import Base.Prelude Model.Fdr Model.Results Model.Competition Harness.H02."
    case_type = "c02_in * c02_out"
    chk = "chk02"
    runf = "run02"
    deterministic = False
    rule = ("1-12 groups over 2-6 base identifiers with REV__/rev_/OBSOLETE__/CON__ decorations (cleaned ids collide), "
            "0-4 peptides each mapping to sub-lists of the group, scores from a 4-value set (a fifth of the inputs: those values plus 0-3 times 2^-30); exhaustive 2-3 group "
            "configurations over 2 base ids; all three strategies; the two shuffles are recorded from numpy and replayed "
            "in the model; a quarter of the inputs run after an earlier call on the same strategy object with the same groups and other "
            "evidence; non-trivial = a competition removal and a score tie")

    def gen(self, rng, tier):
        # exhaustive small scope: 2-3 groups over two base ids with every decoration
        ids = ["P1", "REV__P1", "OBSOLETE__P1", "P2", "REV__P2", "CON__P2"]
        import itertools
        k = 0
        for n in (2, 3):
            for combo in itertools.product(ids, repeat=n):
                for sc in itertools.product(["1/1", "2/1"], repeat=n):
                    k += 1
                    if tier != "thorough" and k % 3:
                        continue
                    for strat in STRATS:
                        yield {"strategy": strat, "groups": [[c] for c in combo],
                               "infos": [[["1/1024", gens.PEPTIDES[i], [c]]] for i, c in enumerate(combo)],
                               "scores": list(sc), "seed": k}
        for _ in range(core.tier_n(tier, 1500, 40000)):
            yield gen_case(rng, big=rng.random() < 0.05)

    def impl(self, case):
        return run_competition(case["strategy"], case["groups"], case["infos"], case["scores"], case["seed"], case.get("prior"))

    def render_in_with(self, case, perms):
        p1 = perms[0] if len(perms) > 0 else []
        p2 = perms[1] if len(perms) > 1 else []
        return cpair(STRATS[case["strategy"]],
                     clist(render_group(g) for g in case["groups"]),
                     clist(clist(render_pinfo(i) for i in inf) for inf in case["infos"]),
                     clist(cQ(Fraction(s)) for s in case["scores"]),
                     clist(cnat(i) for i in p1), clist(cnat(i) for i in p2))

    def render_in(self, case):
        out = self.impl(case)
        return self.render_in_with(case, out["perms"])

    def render(self, case, out):
        if "raise" in out:
            o = craise(out["raise"])
        else:
            o = cok(clist(cpair(render_group(g), clist(render_pinfo(i) for i in inf), cQ(Fraction(s)))
                          for g, inf, s in out["ok"]))
        return cpair(self.render_in_with(case, out["perms"]), o)

    def nontrivial(self, case, out):
        if "ok" not in out:
            return False
        from picked_group_fdr import helpers
        n_in = sum(1 for g, inf in zip(case["groups"], case["infos"]) if inf and not helpers.is_contaminant(g))
        return len(out["ok"]) < n_in and len(set(case["scores"])) < len(case["scores"])

    def describe(self, case, out):
        return {"strategy": case["strategy"], "groups": min(len(case["groups"]), 13),
                "outcome": out.get("raise", "ok"), "shuffles": out["n_shuffles"]}

    def shrink(self, case):
        n = len(case["groups"])
        for i in range(n):
            c = dict(case)
            for k in ("groups", "infos", "scores"):
                c[k] = case[k][:i] + case[k][i + 1:]
            yield c


def _clean(p):
    """the property's own reading: decoy and placeholder prefixes stripped"""
    return p.replace("REV__", "").replace("OBSOLETE__", "").replace("rev_", "")


def _all_contain(g, pat):
    return all(pat in p for p in g)


def _counts(inf):
    """distinct peptides per protein (each protein once per peptide)"""
    cnt, seen = {}, set()
    for pep, e, pr in sorted((Fraction(p), e, pr) for p, e, pr in inf):
        if e not in seen:
            seen.add(e)
            for q in dict.fromkeys(pr):
                cnt[q] = cnt.get(q, 0) + 1
    return cnt


def property_violation(case, out):
    """C02/C14 evaluated on the implementation's own output, with definitions independent of the code under test."""
    if out["n_shuffles"] != 2 and "ok" in out:
        return "tie-order-not-drawn-by-two-shuffles"
    if out["seen_after"]:
        return "seen-set-not-reset"
    if "ok" not in out:
        return None
    strat = case["strategy"]
    inp = [(g, inf, Fraction(s)) for g, inf, s in zip(case["groups"], case["infos"], case["scores"])]
    surv = [(g, inf, Fraction(s)) for g, inf, s in out["ok"]]
    pool = list(inp)
    for t in surv:
        if t in pool:
            pool.remove(t)
        else:
            return "survivor-not-an-unchanged-input-group"
    if any(a[2] < b[2] for a, b in zip(surv, surv[1:])):
        return "ranking-not-in-non-increasing-score-order"

    def mem(g):
        return {";".join(map(_clean, g))} if strat == "picked" else {_clean(p) for p in g}

    def lead(g, inf):
        if strat == "picked":
            return {";".join(map(_clean, g))}
        cnt = _counts(inf)
        mx = max([cnt.get(p, 0) for p in g] + list(cnt.values()) + [0])
        return {_clean(p) for p in g if cnt.get(p, 0) == mx}

    def obsolete(g):
        return _all_contain(g, "OBSOLETE__")
    for g, inf, s in pool:           # removed groups
        if _all_contain(g, "CON__") or not inf:
            continue
        if strat == "classic":
            return "classic-strategy-removed-a-group"
        ok = False
        for sg, sinf, ss in surv:
            if mem(g) & lead(sg, sinf) and (ss > s or (ss == s and (not obsolete(sg) or obsolete(g)))):
                ok = True
        if not ok:
            return "removal-not-justified"
    for g, inf, s in surv:
        if _all_contain(g, "CON__"):
            return "contaminant-survived"
        for sg, sinf, ss in surv:
            if ss > s and strat != "classic" and mem(g) & lead(sg, sinf):
                return "twin-survivors"
    return None
