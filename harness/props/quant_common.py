"""Shared generators for the quantification path (C12, C13): toy database + MaxQuant / DIA-NN evidence with
experiments, fractions, charges, match-between-runs rows, SILAC or TMT channels; in-process CLI run with capture."""
import csv
import os

from .. import core, filegen


def make_quant_inputs(d, rng, n_exp=2, silac=0, tmt=0, n_psm=None, diann=False):
    from picked_group_fdr import digest
    from picked_group_fdr.digestion_params import DigestionParams
    prots = filegen.toy_database(rng, n_prot=rng.randint(3, 6))
    fasta = os.path.join(d, "db.fasta")
    filegen.write_fasta(fasta, prots)
    pmap = digest.get_peptide_to_protein_map_from_params([fasta], [DigestionParams()])
    peptides = sorted(pmap)
    exps = [f"E{i + 1}" for i in range(n_exp)]
    rows = []
    n = n_psm or rng.randint(6, 30)
    for i in range(n):
        pep = rng.choice(peptides)
        mod = pep.replace("M", "M(ox)", 1) if "M" in pep and rng.random() < 0.3 else pep
        mbr = rng.random() < 0.12
        r = rng.random()
        p = None if mbr else (rng.choice([1e-6, 1e-4, 0.003, 0.02, 0.2, 0.7]))
        exp = rng.choice(exps)
        rows.append({"peptide": pep, "mod": mod, "proteins": list(pmap[pep]), "pep": p, "charge": rng.choice([2, 3]),
                     "experiment": exp, "raw": "raw_" + exp + rng.choice(["a", "b"]), "fraction": rng.choice([1, 2]),
                     "intensity": float(rng.randint(1, 2000)) * 1024.0 if rng.random() < 0.93 else None, "id": i,
                     "silac": [float(rng.randint(0, 500)) * 512.0 for _ in range(silac)],
                     "tmt": [float(rng.randint(0, 300)) * 256.0 for _ in range(3 * tmt)]})
    # one protein quantified by a single precursor in a single experiment: a group without any sample pair to compare
    uniq = [pep for pep in peptides if len(pmap[pep]) == 1]
    if uniq and rows:
        lone_pep = rng.choice(uniq)
        lone = pmap[lone_pep][0]
        rows = [r for r in rows if lone not in r["proteins"]]
        rows.append({"peptide": lone_pep, "mod": lone_pep, "proteins": [lone], "pep": 1e-6, "charge": 2, "experiment": exps[0],
                     "raw": "raw_" + exps[0] + "a", "fraction": 1, "intensity": 4096.0, "id": n,
                     "silac": [1024.0 * (k + 1) for k in range(silac)], "tmt": [256.0] * (3 * tmt)})
    ev = os.path.join(d, "report.tsv" if diann else "evidence.txt")
    if diann:
        filegen.write_diann(ev, [dict(r, pep=(r["pep"] if r["pep"] is not None else 0.5),
                                      intensity=(r["intensity"] or 0.0)) for r in rows])
    else:
        write_mq_quant(ev, rows, silac, tmt)
    return {"fasta": fasta, "evidence": ev, "rows": rows, "exps": exps, "pmap": pmap, "prots": prots}


def write_mq_quant(path, rows, silac, tmt):
    cols = ["Sequence", "Modified sequence", "Leading proteins", "Leading razor protein", "PEP", "Score", "Experiment",
            "Charge", "Intensity", "Raw file", "Fraction", "id"]
    sil = {2: ["Intensity L", "Intensity H"], 3: ["Intensity L", "Intensity M", "Intensity H"]}.get(silac, [])
    tm = []
    for i in range(1, tmt + 1):
        tm += [f"Reporter intensity corrected {i}", f"Reporter intensity {i}", f"Reporter intensity count {i}"]
    with open(path, "w", newline="") as f:
        w = csv.writer(f, delimiter="\t")
        w.writerow(cols + sil + tm)
        for r in rows:
            w.writerow([r["peptide"], "_" + r["mod"] + "_", ";".join(r["proteins"]), r["proteins"][0],
                        "NaN" if r["pep"] is None else repr(r["pep"]), "100", r["experiment"], r["charge"],
                        "" if r["intensity"] is None else repr(r["intensity"]), r["raw"], r["fraction"], r["id"]]
                       + [repr(x) for x in r["silac"]] + [repr(x) for x in r["tmt"]])


def run_cli_capture(argv):
    """run the CLI in-process, capturing the ProteinGroupResults handed to the writer"""
    from picked_group_fdr import picked_group_fdr as pgf
    from picked_group_fdr import writers
    cap = {}
    real = writers.write_protein_groups

    def wpg(writer, results, out):
        cap["results"] = results
        cap["writer"] = writer
        return real(writer, results, out)
    writers.write_protein_groups = wpg
    import picked_group_fdr.writers.base as wb
    real_b = wb.write_protein_groups
    wb.write_protein_groups = wpg
    try:
        try:
            pgf.main(argv)
        except SystemExit as e:
            cap["exit"] = e.code
        except Exception as e:  # noqa
            cap["exception"] = f"{type(e).__name__}: {e}"[:300]
    finally:
        writers.write_protein_groups = real
        wb.write_protein_groups = real_b
    return cap
