"""C03 — subset / no / pseudo-gene grouping vs Model/Grouping.v."""
from .. import core
from .grouping_common import GroupingSuite, property_violation

SUITES = [GroupingSuite()]


def suite_by_name(name):
    return next(s for s in SUITES if s.name == name)


def run(r: core.Runner):
    r.assumptions += [
        "networkx.connected_components is tied by correspondence only (re-implemented as a fuel-bounded closure)",
        "protein identifiers contain no ';' (pseudo-peptide node names join leading proteins with ';')",
    ]
    s = SUITES[0]
    orig = r.violation

    def violation(kind, data, found_input, what):
        if data.get("suite") == s.name and "case" in data:
            c = data["case"]
            v = property_violation(c["mode"], c["map"], s.impl(c))
            if v:
                kind, found_input, what = "property-failure", True, f"{s.name}: {v}"
        orig(kind, data, found_input, what)
    r.violation = violation
    r.run_suite(s)
    if r.tier == "thorough":
        r.exhaustive = True
        r.extra["exhaustive_scope"] = "all 4-protein x 4-peptide incidence structures (subset mode on all, other modes on a share)"
