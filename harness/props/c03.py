"""C03 — subset / no / pseudo-gene grouping vs Model/Grouping.v."""
from .. import core
from .grouping_common import GroupingSuite, property_violation

SUITES = [GroupingSuite()]


def suite_by_name(name):
    return next(s for s in SUITES if s.name == name)


def large_structures(r, n_inputs):
    """databases of ~12 000 observed proteins (too large for the in-Coq evaluation: monitor only): blocks of 1-4 proteins with
    identical peptide sets, disjoint between blocks, laid out back to back - the groups must be exactly the blocks, whatever the
    position of a block in the order of processing"""
    from .grouping_common import group
    n = 0
    for _ in range(n_inputs):
        m, blocks, i = [], [], 0
        while i < 12000:
            size = r.rng.choice([1, 1, 2, 3, 4])
            block = [f"Q{i + j}" for j in range(size)]
            blocks.append(block)
            for e in range(r.rng.choice([1, 2])):
                ps = list(block)
                r.rng.shuffle(ps)
                m.append([f"pep{i}_{e}", ps])
            i += size
        for mode in ("subset", "pseudo_gene"):
            n += 1
            try:
                out = group(mode, m)
                got = sorted(sorted(g) for g in out)
                want = sorted(sorted(b) for b in blocks)
                wanted = set(map(tuple, want))
                problem = None if got == want else \
                    f"{len(out)} groups for {len(blocks)} blocks of proteins with identical peptide sets; first group that is not a block: " \
                    f"{next((g for g in got if tuple(g) not in wanted), None)}"
            except Exception as e:
                problem = f"raised {type(e).__name__}: {e}"[:120]
            if problem:
                r.violation("property-failure", {"suite": "large_structures", "mode": mode, "blocks": len(blocks), "proteins": i, "problem": problem,
                                                 "first_blocks": blocks[:5]}, True, f"large_structures ({mode}, {i} proteins): {problem}"[:400])
                return n
    return n


def run(r: core.Runner):
    r.assumptions += [
        "networkx.connected_components is tied by correspondence only (re-implemented as a fuel-bounded closure)",
        "protein identifiers contain no ';' (pseudo-peptide node names join leading proteins with ';')",
    ]
    s = SUITES[0]
    orig = r.violation

    def violation(kind, data, found_input, what):
        if data.get("suite") == s.name and "case" in data:
            c = data["case"]
            v = property_violation(c["mode"], c["map"], s.impl(c))
            if v:
                kind, found_input, what = "property-failure", True, f"{s.name}: {v}"
        orig(kind, data, found_input, what)
    r.violation = violation
    r.run_suite(s)
    r.traces = (r.traces or 0) + large_structures(r, core.tier_n(r.tier, 3, 12))
    if r.tier == "thorough":
        r.exhaustive = True
        r.extra["exhaustive_scope"] = "all 4-protein x 4-peptide incidence structures (subset mode on all, other modes on a share)"
