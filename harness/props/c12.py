"""C12 — quantification columns: attachment of evidence rows to groups, identified-precursor filter, unique peptide
counts, identification type, summed intensity, iBAQ, evidence ids vs Model/Quant.v."""
import csv
import os
import tempfile
from fractions import Fraction

from .. import core, gens
from ..core import Suite, cZ, cnat, cQ, cstr, clist, cpair, copt, cok, craise

PEPS = ["AAK", "CCK", "DDR", "EEK", "FMR", "GGK", "HHR", "IIK"]
PEP_VALUES = ["1/1048576", "1/8192", "1/256", "1/64", "1/4", "3/4"]


def write_evidence(path, rows, silac, tmt=0, colperm=None, bom=False):
    cols = ["Sequence", "Modified sequence", "Leading proteins", "Leading razor protein", "PEP", "Score", "Experiment",
            "Charge", "Intensity", "Raw file", "Fraction", "id"]
    sil = {2: ["Intensity L", "Intensity H"], 3: ["Intensity L", "Intensity M", "Intensity H"]}.get(silac, [])
    tm = []
    for i in range(1, tmt + 1):
        tm += [f"Reporter intensity corrected {i}", f"Reporter intensity {i}", f"Reporter intensity count {i}"]
    header = cols + sil + tm
    perm = list(range(len(header)))
    if colperm is not None:
        # the columns of the file in another order (columns are found by name): a seeded shuffle of all of them
        import random
        random.Random(colperm).shuffle(perm)
        # ... except that the reporter columns keep their relative order: the tool takes them in file order, which is MaxQuant's
        # fixed order (the SILAC channels L / M / H and every other column are found by name)
        slots = [i for i, k in enumerate(perm) if header[k] in tm]
        for i, k in zip(slots, sorted(perm[i] for i in slots)):
            perm[i] = k
    # (optionally with a UTF-8 byte-order mark, as spreadsheet exports write it: the first header cell must still be recognised)
    with open(path, "w", newline="", encoding="utf-8-sig" if bom else "utf-8") as f:
        w = csv.writer(f, delimiter="\t")
        w.writerow([header[k] for k in perm])
        for r in rows:
            cells = ([r["mod"].replace("(ox)", ""), "_" + r["mod"] + "_", ";".join(r["proteins"]),
                      r["proteins"][0] if r["proteins"] else "",
                      "NaN" if r["pep"] is None else repr(float(Fraction(r["pep"]))), "100", r["exp"], r["charge"],
                      {"nan": "NaN", "empty": ""}.get(r["intensity"], r["intensity"]), "raw_" + r["exp"], 1, r["id"]]
                     + [str(x) for x in r["silac"][:silac]] + [str(x) for x in r.get("tmt", [])[:3 * tmt]])
            w.writerow([cells[k] for k in perm])


def fq(x):
    """exact rational of a float"""
    return Fraction(*float(x).as_integer_ratio())


def nan(x):
    return x != x


class QuantSuite(Suite):
    name = "quant_columns"
    imports = "From PGF Require Import Base.Prelude Model.Quant Harness.H12."
    case_type = "c12_in * c12_out"
    chk = "chk12"
    runf = "run12"
    deterministic = True
    rule = ("2-6 reported groups over <= 9 proteins (targets, decoys), 0-24 evidence rows over 1-3 experiments: proteins inside one "
            "group, spanning two groups (shared), partly or wholly unknown; PEPs on a dyadic grid incl. ties, match-between-runs rows "
            "(NaN PEP), the same (peptide, charge) identified in one row and not in another, modified forms; intensities multiples of 1024 "
            "(float sums exact), NaN and empty intensity cells; label-free, SILAC 2 / 3 channels or TMT 1 / 2 channels; proteins missing from the iBAQ table; "
            "PSM-level FDR 0.01 / 0.05 / 1; a third of the files with their columns in a shuffled order; a quarter of the inputs with an experimental design whose experiments are listed in an order that is not the sorted one; non-trivial = a row discarded as shared or unknown, a precursor dropped by the identified filter, and >= 2 groups with precursors")

    def gen(self, rng, tier):
        for _ in range(core.tier_n(tier, 700, 12000)):
            npr = rng.randint(3, 9)
            prots = [("REV__" if rng.random() < 0.25 else "") + f"P{i}" for i in range(npr)]
            pool = prots[:]
            rng.shuffle(pool)
            groups, k = [], 0
            while k < len(pool) - 1 and len(groups) < 6:
                sz = rng.choice([1, 1, 2, 3])
                groups.append(pool[k:k + sz])
                k += sz
            known = [p for g in groups for p in g]
            exps = [f"E{i + 1}" for i in range(rng.randint(1, 3))]
            silac = rng.choice([0, 0, 0, 2, 3])
            rows = []
            for i in range(rng.randint(0, 24)):
                r = rng.random()
                if r < 0.62:
                    g = rng.choice(groups)
                    ps = rng.sample(g, rng.randint(1, len(g)))
                elif r < 0.8:
                    ps = rng.sample(known, rng.randint(2, min(3, len(known)))) if len(known) >= 2 else known[:]
                elif r < 0.9:
                    ps = rng.sample(known, 1) + ["UNKNOWN1"]
                else:
                    ps = [rng.choice(["UNKNOWN1", "UNKNOWN2"] + pool[k:])]
                pep = rng.choice(PEPS)
                mod = pep.replace("M", "M(ox)") if "M" in pep and rng.random() < 0.5 else pep
                mbr = rng.random() < 0.15
                it = rng.random()
                rows.append({"mod": mod, "proteins": ps, "pep": None if mbr else rng.choice(PEP_VALUES), "charge": rng.choice([2, 2, 3]),
                             "exp": rng.choice(exps), "id": rng.choice([i, i, 100 - i]),
                             "intensity": "nan" if it < 0.04 else "empty" if it < 0.08 else repr(float(rng.randint(1, 4000) * 1024)),
                             "silac": [repr(float(rng.randint(0, 900) * 512)) for _ in range(3)],
                             "tmt": [repr(float(rng.randint(0, 300) * 256)) for _ in range(6)]})
            ibaq = {p: rng.choice([0, 1, 2, 3, 5, 7, 12]) for p in prots}
            if rng.random() < 0.04 and known:
                del ibaq[rng.choice(known)]
            case = {"groups": groups, "rows": rows, "ibaq": ibaq, "silac": silac, "fdr": rng.choice([0.01, 0.05, 0.05, 1.0]),
                    "tmt": self.tmt_choice(rng, silac)}
            if rng.random() < 0.3:
                case["colperm"] = rng.randint(1, 10 ** 6)
                case["bom"] = rng.random() < 0.5
            if rng.random() < 0.25:
                # an experimental design: raw files assigned to experiments whose names do NOT sort in the order they are listed
                # (E2 before E10, B before A): the per-experiment columns follow the design's order
                names = rng.choice([["E2", "E10", "E1"], ["B", "A", "C"], ["s10", "s9", "s1"], ["same", "same", "other"]])
                case["design"] = [["raw_" + e, names[i]] for i, e in enumerate(exps)]
                rng.shuffle(case["design"])
            yield case

    def tmt_choice(self, rng, silac):
        return rng.choice([0, 0, 0, 1, 2]) if silac == 0 else 0

    def shrink(self, case):
        for i in range(len(case["rows"])):
            yield dict(case, rows=case["rows"][:i] + case["rows"][i + 1:])
        for i in range(len(case["groups"])):
            if len(case["groups"]) > 1:
                yield dict(case, groups=case["groups"][:i] + case["groups"][i + 1:])
        if case["silac"]:
            yield dict(case, silac=0)

    def impl(self, case):
        from picked_group_fdr import fdr, columns
        from picked_group_fdr.parsers import psm
        from picked_group_fdr.protein_groups import ProteinGroups
        from picked_group_fdr.quant import maxquant as mq_quant
        from picked_group_fdr.results import ProteinGroupResult, ProteinGroupResults
        from picked_group_fdr.scoring_strategy import ProteinScoringStrategy
        from picked_group_fdr.writers.base import ProteinGroupsWriter
        d = tempfile.mkdtemp(prefix="c12_", dir=core.scratch())
        ev = os.path.join(d, "evidence.txt")
        write_evidence(ev, case["rows"], case["silac"], case.get("tmt", 0), case.get("colperm"), case.get("bom", False))
        st = ProteinScoringStrategy("no_remap bestPEP")
        try:
            parsed = [list(t) for t in psm.parse_evidence_file_multiple([ev], peptide_to_protein_maps=[None], score_type=st,
                                                                        for_quantification=True)]
        except Exception as e:          # a well-formed evidence file is never refused
            return {"raise": "OtherError", "parsed": [], "cutoffs": [], "msg": f"evidence parser raised {type(e).__name__}: {e}"[:200]}
        # the rows the model is given are the parser's (C10 ties the parser for inference; its quantification fields are tied HERE):
        # charge, raw file, experiment, intensity, PEP, SILAC / TMT vectors and id of every row must be those of the file's row
        def same(a, b):
            return (a != a and b != b) or a == b
        bad_row = None
        if len(parsed) != len(case["rows"]):
            bad_row = f"{len(parsed)} rows parsed from a file of {len(case['rows'])} rows"
        else:
            for i, (pr, cr) in enumerate(zip(parsed, case["rows"])):
                want_int = float("nan") if cr["intensity"] == "nan" else 0.0 if cr["intensity"] == "empty" else float(cr["intensity"])
                want_pep = float("nan") if cr["pep"] is None else float(Fraction(cr["pep"]))
                ok = (int(pr[2]) == cr["charge"] and pr[3] == "raw_" + cr["exp"] and pr[4] == cr["exp"] and same(float(pr[6]), want_int)
                      and same(float(pr[7]), want_pep) and [float(x) for x in pr[8]] == [float(x) for x in cr.get("tmt", [])[:3 * case.get("tmt", 0)]]
                      and [float(x) for x in pr[9]] == [float(x) for x in cr["silac"][:case["silac"]]] and int(pr[10]) == cr["id"])
                if not ok:
                    bad_row = f"row {i} of the file is {cr} but the parser yields {pr}"[:400]
                    break
        if bad_row:
            return {"raise": "OtherError", "parsed": parsed, "cutoffs": [], "msg": "evidence parser (quantification fields): " + bad_row}
        pgr = ProteinGroupResults([ProteinGroupResult(proteinIds=";".join(g), majorityProteinIds=";".join(g), qValue=0.001 * i,
                                                      score=10.0 - i) for i, g in enumerate(case["groups"])])
        pg = ProteinGroups.from_protein_group_results(pgr)
        ibaq = dict(case["ibaq"])

        class W(ProteinGroupsWriter):
            def get_columns(self):
                return [columns.UniquePeptideCountColumns(), columns.IdentificationTypeColumns(),
                        columns.SummedIntensityAndIbaqColumns(ibaq, 0.01), columns.EvidenceIdsColumns(), columns.TMTIntensityColumns()]
        recorded = []
        levels = []
        real = fdr.calc_post_err_prob_cutoff

        def rec(peps, q):
            c = real(peps, q)
            recorded.append(([float(x) for x in peps], float(c)))
            levels.append(float(q))
            return c
        fdr.calc_post_err_prob_cutoff = rec
        try:
            try:
                design = None
                if case.get("design"):
                    import pandas as pd
                    design = pd.DataFrame({"Name": [x[0] for x in case["design"]], "Condition": [x[1] for x in case["design"]],
                                           "Experiment": [x[1] for x in case["design"]], "Fraction": [1] * len(case["design"])})
                pgr, peps = mq_quant.add_precursor_quants([ev], None, pg, pgr, [None], design, True, st, True)
                attached = {r.proteinIds: sorted(p.evidence_id for p in r.precursorQuants) for r in pgr}
                W().append_quant_columns(pgr, peps, case["fdr"])
            except Exception as e:
                return {"raise": gens.exn_name(e), "parsed": parsed, "cutoffs": recorded}
        finally:
            fdr.calc_post_err_prob_cutoff = real
        if any(q != float(case["fdr"]) for q in levels):
            # the oracle's second argument is part of the contract: the identified-precursor cutoff is the one of the caller's level
            return {"raise": "OtherError", "parsed": parsed, "cutoffs": recorded,
                    "msg": f"cutoff function asked for level {levels} although the caller's PSM-level FDR is {case['fdr']}"}
        return {"parsed": parsed, "cutoffs": recorded, "experiments": list(pgr.experiments), "nsilac": pgr.num_silac_channels,
                "attached": attached, "rows": [[r.proteinIds, list(r.extraColumns)] for r in pgr]}

    def render(self, case, out):
        ns = max(0, out.get("nsilac", case["silac"] if out["parsed"] else 0))
        rows = []
        dmap = dict(case.get("design") or [])
        for (pe, pr, ch, raw, ex, fr, it, pp, tmt, sil, eid) in out["parsed"]:
            ex = dmap.get(raw, ex) if dmap else ex       # the experiment a raw file is assigned to is a fact of the INPUT (the design)
            rows.append(cpair(cstr(pe), clist(cstr(p) for p in pr), cZ(ch), cstr(ex), copt(None if nan(it) else cQ(fq(it))),
                              copt(None if nan(pp) else cQ(fq(pp))), clist(cQ(fq(float(x))) for x in sil),
                              clist(cQ(fq(float(x))) for x in tmt), cZ(eid)))
        cuts = clist(cpair(clist(cQ(fq(x)) for x in k), cQ(fq(v))) for k, v in out["cutoffs"])
        dexps = list(dict.fromkeys(x[1] for x in case["design"])) if case.get("design") else None
        cin = cpair(clist(cpair(cstr(k), cnat(v)) for k, v in case["ibaq"].items()), cuts, cnat(ns),
                    clist(clist(cstr(p) for p in g) for g in case["groups"]), clist(rows),
                    copt(None if dexps is None else clist(cstr(e) for e in dexps)))
        if getattr(self, "tmt_only", False):
            # the TMT reporter cells of every written row (they follow the evidence ids)
            if "raise" in out:
                return cpair(cpair(cin, cnat(3 * case["tmt"])), copt(None))
            E = len(out["experiments"])
            off = 1 + 2 * E + 3 + 2 * E * (1 + ns) + 1
            return cpair(cpair(cin, cnat(3 * case["tmt"])), copt(clist(clist(cQ(fq(float(v))) for v in x[off:]) for _, x in out["rows"])))
        if "raise" in out:
            return cpair(cin, craise(out["raise"]))
        E = len(out["experiments"])
        W = E * (1 + ns)
        qrows = []
        for ids, x in out["rows"]:
            uniq, idt = x[:1 + E], x[1 + E:1 + 2 * E]
            k = 1 + 2 * E
            tot, ints, nth = x[k], x[k + 1:k + 1 + W], x[k + 1 + W]
            ibt, ib, evid = x[k + 2 + W], x[k + 3 + W:k + 3 + 2 * W], x[k + 3 + 2 * W]
            nt = [int(v) for v in nth.split(";")]
            lead = max(1, nt[0])

            def quot(v, total):
                f = Fraction(int(fq(total)), lead)
                return f if float(f) == float(v) else fq(v)
            qrows.append(cpair(clist(cstr(p) for p in ids.split(";")), clist(cnat(int(u)) for u in uniq), clist(cstr(t) for t in idt),
                               cQ(fq(tot)), clist(cQ(fq(v)) for v in ints), clist(cnat(n) for n in nt), cQ(quot(ibt, tot)),
                               clist(cQ(quot(v, t)) for v, t in zip(ib, ints)),
                               clist(cZ(int(e)) for e in evid.split(";") if e != "")))
        return cpair(cin, cok(cpair(clist(cstr(e) for e in out["experiments"]), clist(qrows))))

    def nontrivial(self, case, out):
        if "rows" not in out or len(out["rows"]) < 2:
            return False
        n_att = sum(len(v) for v in out["attached"].values())
        E = len(out["experiments"])
        ei = 1 + 2 * E + 3 + 2 * E * (1 + max(0, out.get("nsilac", 0)))         # position of the evidence ids (TMT cells follow)
        kept = sum(len([e for e in str(r[1][ei]).split(";") if e]) for r in out["rows"])
        return n_att < len(out["parsed"]) and kept < n_att

    def describe(self, case, out):
        return {"groups": len(case["groups"]), "rows": len(case["rows"]), "silac": case["silac"], "fdr": case["fdr"],
                "outcome": out.get("raise", "ok"),
                "groups_with_precursors": len(out.get("rows", []))}

    def signature(self, case, out):
        return "quant-columns-model-mismatch"


class TmtSuite(QuantSuite):
    name = "tmt_reporter_columns"
    case_type = "(c12_in * nat) * option (list (list Q))"
    chk = "chk12t"
    runf = None
    tmt_only = True
    rule = ("as quant_columns, label-free evidence with 1-2 TMT channels (three reporter columns each, values multiples of 256): the "
            "reporter cells the TMT column generator appends to every row are compared with Model/Quant.v tmt_intensities")

    def tmt_choice(self, rng, silac):
        return rng.choice([1, 2])

    def gen(self, rng, tier):
        for c in QuantSuite.gen(self, rng, tier):
            if c["silac"] == 0:
                yield c

    def render_in(self, case):
        return None

    def nontrivial(self, case, out):
        return "rows" in out and len(out["rows"]) >= 2


SUITES = [QuantSuite(), TmtSuite()]


def suite_by_name(name):
    return next(s for s in SUITES if s.name == name)


def entry_points(r, n_inputs):
    """the two command-line routes to the quantification columns - picked_group_fdr --do_quant and the standalone quantification
    entry point fed with the table the first one wrote - agree on every column (except 'Best peptide', which the table read-back
    does not carry), and both derive the identified-precursor PEP cutoff from --psm_fdr_cutoff (every call of the cutoff function
    is recorded with the level it was asked for)"""
    import csv
    import tempfile
    from picked_group_fdr import picked_group_fdr as pgf, quantification, fdr
    from .quant_common import make_quant_inputs

    def run_entry(fn, argv):
        levels = []
        real = fdr.calc_post_err_prob_cutoff

        def cut(peps, q):
            levels.append(float(q))
            return real(peps, q)
        fdr.calc_post_err_prob_cutoff = cut
        try:
            try:
                fn(argv)
                err = None
            except BaseException as e:  # noqa: SystemExit included
                err = f"{type(e).__name__}: {e}"[:200]
        finally:
            fdr.calc_post_err_prob_cutoff = real
        return levels, err

    def table(path):
        rows = list(csv.reader(open(path), delimiter="\t"))
        return rows[0], rows[1:]
    n = 0
    for k in range(n_inputs):
        d = tempfile.mkdtemp(prefix="c12e_", dir=core.scratch())
        inp = make_quant_inputs(d, r.rng, n_exp=r.rng.choice([1, 2, 3]))
        T, P = r.rng.choice([0.01, 0.3, 1.0]), r.rng.choice([0.01, 0.05, 0.3])
        base = ["--mq_evidence", inp["evidence"], "--fasta", inp["fasta"], "--protein_group_fdr_threshold", str(T), "--psm_fdr_cutoff", str(P)]
        pg0, pga, pgb = (os.path.join(d, x) for x in ("pg0.txt", "pgA.txt", "pgB.txt"))
        runs = [("picked_group_fdr", pgf.main, base + ["--methods", "picked_protein_group_mq_input", "--protein_groups_out", pg0]),
                ("picked_group_fdr --do_quant", pgf.main, base + ["--methods", "picked_protein_group_mq_input", "--protein_groups_out", pga, "--do_quant"]),
                ("quantification", quantification.main, base + ["--mq_protein_groups", pg0, "--protein_groups_out", pgb])]
        data = {"suite": "entry_points", "rows": inp["rows"], "fasta": open(inp["fasta"]).read(), "protein_group_fdr_threshold": T, "psm_fdr_cutoff": P}
        for name, fn, argv in runs:
            n += 1
            levels, err = run_entry(fn, argv)
            if err:
                if name == "picked_group_fdr":
                    break       # no ranking for this input: nothing to quantify
                r.violation("property-failure", dict(data, entry=name, error=err), True, f"entry_points: {name} raised {err}")
                return n
            wrong = sorted({q for q in levels if q != P})
            if wrong:
                r.violation("property-failure", dict(data, entry=name, levels_asked=wrong), True,
                            f"entry_points: {name} derived a PEP cutoff from level {wrong} although --psm_fdr_cutoff is {P} "
                            f"(--protein_group_fdr_threshold {T})")
                return n
        else:
            (ha, ra), (hb, rb) = table(pga), table(pgb)
            da, db = {x[0]: dict(zip(ha, x)) for x in ra}, {x[0]: dict(zip(hb, x)) for x in rb}
            diff = None
            if ha != hb:
                diff = f"headers differ: {[h for h in ha if h not in hb][:4]} / {[h for h in hb if h not in ha][:4]}"
            elif set(da) != set(db):
                diff = f"rows differ: {sorted(set(da) ^ set(db))[:3]}"
            else:
                for pid in da:
                    cols = [(h, da[pid][h], db[pid][h]) for h in ha if h != "Best peptide" and da[pid][h] != db[pid][h]]
                    if cols:
                        diff = f"row {pid}: {cols[:3]}"
                        break
            if diff:
                r.violation("property-failure", dict(data, difference=diff), True,
                            f"entry_points: picked_group_fdr --do_quant and the quantification entry point write different columns: {diff}")
                return n
    return n


def run(r: core.Runner):
    r.assumptions += [
        "evidence rows enter the model as the tool's own parser yields them (parser: C10); intensities lie on a grid where float sums are exact",
        "fdr.calc_post_err_prob_cutoff is a recorded oracle keyed by the exact PEP list it was handed (its own contract: C17)",
        "iBAQ division: the model's exact quotient is compared with the float through correct rounding",
    ]
    for s in SUITES:
        r.run_suite(s, max_report=2)
    r.traces = (r.traces or 0) + entry_points(r, core.tier_n(r.tier, 4, 40))
