"""Further regenerated tables (enzymes, headers); filled in as the properties that need them are built."""


def regenerate_more(gen_dir, write_if_changed, cstr):
    return []
