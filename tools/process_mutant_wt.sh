#!/bin/bash
# usage: tools/process_mutant_wt.sh <worktree> <seeded-name> <Cxx> [more Cxx...]   (as process_mutant.sh, via try_mutant_wt.sh)
wt="$1"; name="$2"; shift 2
d=/verif/seeded/$name; mkdir -p "$d"
( cd "$wt" || exit 2
  export PYTHONPATH=/tmp/mut_stubs:$wt PYTHONHASHSEED=0
  git diff > "$d/patch.diff"
  t=$(env -u PYTHONPATH /venv/bin/python -m pytest -q -p no:cacheprovider --timeout=900 --continue-on-collection-errors 2>&1 | tail -1)
  timeout 600 /venv/bin/python -W ignore demo.py >/dev/null 2>&1; m=$?
  git apply -R "$d/patch.diff"; timeout 600 /venv/bin/python -W ignore demo.py >/dev/null 2>&1; o=$?; git apply "$d/patch.diff"
  echo "confirm $name: pytest: $t | demo with change exit=$m | without exit=$o"
  cp demo.py "$d/demo.py"; cp NOTE.txt "$d/NOTE.txt" )
git -C /repo worktree remove --force "$wt"
/verif/tools/try_mutant_wt.sh "$d/patch.diff" "$@" 2>&1 | tail -4
