#!/bin/bash
# usage: tools/try_mutant.sh <patch.diff> <Cxx> [more Cxx...]   -- applies the patch to /repo, runs the checks, reverts
set -u
patch="$1"; shift
cd /repo || exit 2
if ! git diff --quiet; then echo "/repo has uncommitted changes"; exit 2; fi
git apply "$patch" || { echo "patch does not apply"; exit 2; }
trap 'git -C /repo checkout -- . ' EXIT
for id in "$@"; do
  echo "== $id"
  (cd /verif && ./check "$id" quick 2>&1 | grep -E "^(VIOLATION|OK|KNOWN)|\[" | head -5)
done
