#!/bin/bash
# usage: tools/try_mutant_wt.sh <patch.diff> <Cxx> [more Cxx...]
# like try_mutant.sh but applies the change in a scratch worktree (/tmp/mutrepo, created on demand) and points the checks at it with
# PGF_REPO, so /repo itself stays untouched (usable while other runs are reading /repo). Evidence of these runs goes to /tmp/mut_evidence, not to /verif/evidence.
set -u
patch="$1"; shift
wt=/tmp/mutrepo
[ -d "$wt" ] || git -C /repo worktree add -q --detach "$wt" HEAD
cd "$wt" || exit 2
git checkout -q --detach "$(git -C /repo rev-parse HEAD)" 2>/dev/null
git checkout -- . ; git apply "$patch" || { echo "patch does not apply"; exit 2; }
trap 'git -C /tmp/mutrepo checkout -- .' EXIT
for id in "$@"; do
  echo "== $id"
  (cd /verif && PGF_EVIDENCE_DIR=/tmp/mut_evidence PGF_REPO=$wt ./check "$id" quick 2>&1 | grep -E "^(VIOLATION|OK)|\[" | head -5)
done
