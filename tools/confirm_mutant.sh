#!/bin/bash
# usage: tools/confirm_mutant.sh <worktree>   -- confirms: pinned tests pass with the change; demo fails with it, passes without it
wt="$1"; cd "$wt" || exit 2
export PYTHONPATH=/tmp/mut_stubs:$wt PYTHONHASHSEED=0
t=$(env -u PYTHONPATH /venv/bin/python -m pytest -q -p no:cacheprovider --timeout=900 --continue-on-collection-errors 2>&1 | tail -1)
/venv/bin/python -W ignore demo.py >/tmp/demo_mut.out 2>&1; m=$?
git stash -q; /venv/bin/python -W ignore demo.py >/tmp/demo_orig.out 2>&1; o=$?; git stash pop -q
echo "pytest: $t | demo on mutant exit=$m | demo on original exit=$o"
